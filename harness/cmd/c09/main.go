// Differential / black-box driver for C09 (x509: created certificates, certificate requests and
// revocation lists parse back to the template and verify only under the issuer).  Public API only.
//
//	c09 gen <seed> <tier> <cases-out> <obs-out>   generate cases, run /repo on them
//	c09 run <cases-in> <obs-out>                  run /repo on given cases (replay)
//
// Case line:  T <id> <kind> <signer> <algo> <tseed> <mut>
//
//	kind   cert | csr | crl | rl      (crl = (*Certificate).CreateCRL, rl = CreateRevocationList)
//	signer sm2 | rsa | p256
//	algo   decimal x509.SignatureAlgorithm put in the template (0 = unset; always 0 for crl)
//	tseed  decimal uint64; the whole template derives from hx.NewRng(tseed)
//	mut    q | a                      (quick mutation set | all positions)
//
// Observation line:
//
//	<id> ok <created> <parse_equal> <v_issuer> <v_other> <n_mut> <surv_tbs> <surv_sig> <surv_alg> <surv_hdr> <detail>
//	<id> PANIC | <id> HANG | <id> err <why>   (err = the driver could not set up its issuer objects)
//
// Keys are generated per process (crypto/rand); RSA-2048 keys are cached under /verif/corpus/c09/.
package main

import (
	"bytes"
	"crypto"
	"crypto/ecdsa"
	"crypto/elliptic"
	"crypto/rand"
	"crypto/rsa"
	"crypto/sha1"
	stdx509 "crypto/x509"
	"crypto/x509/pkix"
	"encoding/asn1"
	"encoding/pem"
	"fmt"
	"math/big"
	"net"
	"os"
	"reflect"
	"runtime"
	"runtime/pprof"
	"sort"
	"strconv"
	"strings"
	"sync"
	"time"
	"unicode/utf8"

	"github.com/tjfoc/gmsm/sm2"
	"github.com/tjfoc/gmsm/x509"
	"verifharness/internal/hx"
)

const corpusDir = "/verif/corpus/c09/"
const deadline = 60 * time.Second

// ------------------------------------------------------------------------------------------------
// keys and issuers

type world struct {
	sm2k  [3]*sm2.PrivateKey
	p256k [2]*ecdsa.PrivateKey
	rsak  [2]*rsa.PrivateKey
	iss   map[string][2]*x509.Certificate // signer -> issuer A (signs), issuer B (the "other" key)
	err   map[string]string
}

var W world

func loadRSA(name string) *rsa.PrivateKey {
	path := corpusDir + name
	if b, err := os.ReadFile(path); err == nil {
		if blk, _ := pem.Decode(b); blk != nil {
			if k, err := stdx509.ParsePKCS1PrivateKey(blk.Bytes); err == nil && k.N.BitLen() == 2048 {
				k.Precompute()
				return k
			}
		}
	}
	k, err := rsa.GenerateKey(rand.Reader, 2048)
	if err != nil {
		panic(err)
	}
	os.MkdirAll(corpusDir, 0o755)
	// written under a private name and renamed, so that a concurrent run never reads a partial file
	tmp := fmt.Sprintf("%s.%d.tmp", path, os.Getpid())
	if os.WriteFile(tmp, pem.EncodeToMemory(&pem.Block{Type: "RSA PRIVATE KEY", Bytes: stdx509.MarshalPKCS1PrivateKey(k)}), 0o644) == nil {
		os.Rename(tmp, path)
	}
	k.Precompute()
	return k
}

func issuerName(s string) pkix.Name {
	return pkix.Name{Country: []string{"CN"}, Organization: []string{"gmsm verif"}, CommonName: "c09 issuer " + s}
}

func handIssuer(label string, alg x509.PublicKeyAlgorithm, pub interface{}, keyBytes []byte) *x509.Certificate {
	n := issuerName(label)
	raw, err := asn1.Marshal(n.ToRDNSequence())
	if err != nil {
		panic(err)
	}
	ski := sha1.Sum(keyBytes)
	return &x509.Certificate{Version: 3, BasicConstraintsValid: true, IsCA: true,
		KeyUsage:           x509.KeyUsageCertSign | x509.KeyUsageCRLSign,
		PublicKeyAlgorithm: alg, PublicKey: pub, Subject: n, RawSubject: raw, SubjectKeyId: ski[:],
		SerialNumber: big.NewInt(1)}
}

func sm2Issuer(label string, k *sm2.PrivateKey) (c *x509.Certificate, e string) {
	defer func() {
		if r := recover(); r != nil {
			c, e = nil, "panic:"+slug(fmt.Sprint(r))
		}
	}()
	ski := sha1.Sum(append(k.X.Bytes(), k.Y.Bytes()...))
	t := &x509.Certificate{SerialNumber: big.NewInt(1), Subject: issuerName(label),
		NotBefore: time.Date(2020, 1, 1, 0, 0, 0, 0, time.UTC), NotAfter: time.Date(2045, 1, 1, 0, 0, 0, 0, time.UTC),
		BasicConstraintsValid: true, IsCA: true, KeyUsage: x509.KeyUsageCertSign | x509.KeyUsageCRLSign, SubjectKeyId: ski[:]}
	der, err := x509.CreateCertificate(t, t, &k.PublicKey, k)
	if err != nil {
		return nil, "create:" + slug(err.Error())
	}
	c, err = x509.ParseCertificate(der)
	if err != nil {
		return nil, "parse:" + slug(err.Error())
	}
	if err := c.CheckSignatureFrom(c); err != nil {
		return nil, "selfcheck:" + slug(err.Error())
	}
	return c, ""
}

func setup() {
	var err error
	// fixed SM2 test keys (the public keys appear in the case lines, so a replay sees the same keys); signatures
	// still take their nonces from crypto/rand
	for i := range W.sm2k {
		c := sm2.P256Sm2()
		d := new(big.Int).SetBytes([]byte(fmt.Sprintf("verif c09 sm2 test key number %02d..", i)))
		d.Mod(d, new(big.Int).Sub(c.Params().N, big.NewInt(2)))
		d.Add(d, big.NewInt(1))
		k := new(sm2.PrivateKey)
		k.Curve, k.D = c, d
		k.X, k.Y = c.ScalarBaseMult(d.Bytes())
		W.sm2k[i] = k
	}
	for i := range W.p256k {
		if W.p256k[i], err = ecdsa.GenerateKey(elliptic.P256(), rand.Reader); err != nil {
			panic(err)
		}
	}
	W.rsak[0] = loadRSA("rsa2048_a.pem")
	W.rsak[1] = loadRSA("rsa2048_b.pem")
	W.iss = map[string][2]*x509.Certificate{}
	W.err = map[string]string{}
	a, ea := sm2Issuer("sm2 A", W.sm2k[0])
	b, eb := sm2Issuer("sm2 B", W.sm2k[1])
	if ea+eb != "" {
		W.err["sm2"] = "issuer-setup:" + ea + eb
	}
	W.iss["sm2"] = [2]*x509.Certificate{a, b}
	var r [2]*x509.Certificate
	for i, l := range []string{"rsa A", "rsa B"} {
		r[i] = handIssuer(l, x509.RSA, &W.rsak[i].PublicKey, W.rsak[i].N.Bytes())
	}
	W.iss["rsa"] = r
	var p [2]*x509.Certificate
	for i, l := range []string{"p256 A", "p256 B"} {
		p[i] = handIssuer(l, x509.ECDSA, &W.p256k[i].PublicKey, elliptic.Marshal(elliptic.P256(), W.p256k[i].X, W.p256k[i].Y))
	}
	W.iss["p256"] = p
}

func signerOf(s string) crypto.Signer {
	switch s {
	case "sm2":
		return W.sm2k[0]
	case "rsa":
		return W.rsak[0]
	}
	return W.p256k[0]
}

// the other key of the same family, in the form a parsed object carries it
func otherPub(s string) interface{} {
	switch s {
	case "sm2":
		return &ecdsa.PublicKey{Curve: sm2.P256Sm2(), X: W.sm2k[1].X, Y: W.sm2k[1].Y}
	case "rsa":
		return &W.rsak[1].PublicKey
	}
	return &W.p256k[1].PublicKey
}

func defaultAlgo(s string) x509.SignatureAlgorithm {
	switch s {
	case "sm2":
		return x509.SM2WithSM3
	case "rsa":
		return x509.SHA256WithRSA
	}
	return x509.ECDSAWithSHA256
}

// own copy of the algorithm -> OID table (checked against what the CRL carries)
var algOID = map[x509.SignatureAlgorithm]asn1.ObjectIdentifier{
	x509.MD2WithRSA: {1, 2, 840, 113549, 1, 1, 2}, x509.MD5WithRSA: {1, 2, 840, 113549, 1, 1, 4},
	x509.SHA1WithRSA: {1, 2, 840, 113549, 1, 1, 5}, x509.SHA256WithRSA: {1, 2, 840, 113549, 1, 1, 11},
	x509.SHA384WithRSA: {1, 2, 840, 113549, 1, 1, 12}, x509.SHA512WithRSA: {1, 2, 840, 113549, 1, 1, 13},
	x509.SHA256WithRSAPSS: {1, 2, 840, 113549, 1, 1, 10}, x509.SHA384WithRSAPSS: {1, 2, 840, 113549, 1, 1, 10},
	x509.SHA512WithRSAPSS: {1, 2, 840, 113549, 1, 1, 10},
	x509.DSAWithSHA1:      {1, 2, 840, 10040, 4, 3}, x509.DSAWithSHA256: {2, 16, 840, 1, 101, 3, 4, 3, 2},
	x509.ECDSAWithSHA1: {1, 2, 840, 10045, 4, 1}, x509.ECDSAWithSHA256: {1, 2, 840, 10045, 4, 3, 2},
	x509.ECDSAWithSHA384: {1, 2, 840, 10045, 4, 3, 3}, x509.ECDSAWithSHA512: {1, 2, 840, 10045, 4, 3, 4},
	x509.SM2WithSM3: {1, 2, 156, 10197, 1, 501}, x509.SM2WithSHA1: {1, 2, 156, 10197, 1, 502},
	x509.SM2WithSHA256: {1, 2, 156, 10197, 1, 503},
}

func slug(s string) string {
	var b strings.Builder
	for _, c := range s {
		switch {
		case c >= 'a' && c <= 'z', c >= 'A' && c <= 'Z', c >= '0' && c <= '9', c == ':', c == '.', c == '-', c == '+', c == '=':
			b.WriteRune(c)
		default:
			b.WriteByte('_')
		}
		if b.Len() >= 70 {
			break
		}
	}
	if b.Len() == 0 {
		return "-"
	}
	return b.String()
}

// ------------------------------------------------------------------------------------------------
// template generators (everything from one hx.Rng)

var words = []string{"CN", "US", "ACME Co", "测试证书", "Zürich", "O'Brien & Sons", "a", "with,comma=plus+semi;", "  lead and trail  ",
	"*.example.com", "UPPER lower 123", "\"quoted\" <x>", "tab\tchar", "nul\x00inside", "#hash", "Straße 12", "100-0001", "مرحبا", "é"}

func genStr(r *hx.Rng) string {
	switch r.Intn(12) {
	case 0:
		return ""
	case 1:
		return strings.Repeat("x", r.Pick([]int{1, 63, 64, 65, 127, 128, 200, 300}))
	case 2, 3, 4:
		n := 1 + r.Intn(30)
		b := make([]byte, n)
		for i := range b {
			b[i] = byte(0x20 + r.Intn(0x5f))
		}
		return string(b)
	case 5:
		if r.Intn(80) == 0 {
			return "bad\xff\xfeutf8" // encoding/asn1 refuses it: the template is rejected
		}
		return words[r.Intn(len(words))]
	default:
		return words[r.Intn(len(words))]
	}
}

func genStrs(r *hx.Rng, rich int) []string {
	n := 0
	switch {
	case rich == 0:
		return nil
	case rich == 1:
		n = 1 + r.Intn(3)
	default:
		n = r.Pick([]int{0, 0, 1, 1, 1, 2, 3})
	}
	var out []string
	for i := 0; i < n; i++ {
		out = append(out, genStr(r))
	}
	return out
}

func genOID(r *hx.Rng) asn1.ObjectIdentifier {
	var o asn1.ObjectIdentifier
	switch r.Intn(4) {
	case 0:
		o = asn1.ObjectIdentifier{1, 2, 3, 4}
	case 1:
		o = asn1.ObjectIdentifier{2, 999}
	case 2:
		o = asn1.ObjectIdentifier{0, r.Intn(40)}
	default:
		o = asn1.ObjectIdentifier{1, r.Intn(40)}
	}
	n := r.Intn(8)
	for i := 0; i < n; i++ {
		o = append(o, r.Pick([]int{0, 1, 5, 127, 128, 255, 16383, 16384, 113549, 1<<31 - 1, r.Intn(1 << 20)}))
	}
	// never one of the extended key usages / attribute types the package gives a meaning to
	return append(o, 7, 1+r.Intn(1000))
}

type nameSpec struct {
	country, org, ou, loc, prov, street, postal []string
	serial, cn                                  string
	extra                                       []pkix.AttributeTypeAndValue
}

var extraNameOIDs = []asn1.ObjectIdentifier{
	{1, 2, 840, 113549, 1, 9, 1},         // emailAddress
	{0, 9, 2342, 19200300, 100, 1, 25},   // domainComponent
	{2, 5, 4, 12},                        // title
	{2, 5, 4, 42},                        // givenName
	{1, 3, 6, 1, 4, 1, 311, 60, 2, 1, 3}, // jurisdictionCountry
}

func genName(r *hx.Rng, rich int) nameSpec {
	var n nameSpec
	if rich == 0 {
		if r.Bool() {
			n.cn = "minimal"
		}
		return n
	}
	n.country, n.org, n.ou = genStrs(r, rich), genStrs(r, rich), genStrs(r, rich)
	n.loc, n.prov, n.street, n.postal = genStrs(r, rich), genStrs(r, rich), genStrs(r, rich), genStrs(r, rich)
	if rich == 1 || r.Bool() {
		n.serial = genStr(r)
	}
	if rich == 1 || r.Intn(4) != 0 {
		n.cn = genStr(r)
	}
	k := 0
	if rich == 1 {
		k = 1 + r.Intn(3)
	} else if r.Intn(3) == 0 {
		k = 1 + r.Intn(3)
	}
	for i := 0; i < k; i++ {
		var oid asn1.ObjectIdentifier
		if r.Bool() {
			oid = extraNameOIDs[r.Intn(len(extraNameOIDs))]
		} else {
			oid = genOID(r)
		}
		var v interface{} = genStr(r)
		if r.Intn(8) == 0 {
			v = r.Intn(100000) - 5
		}
		n.extra = append(n.extra, pkix.AttributeTypeAndValue{Type: oid, Value: v})
	}
	return n
}

func cp(s []string) []string { return append([]string(nil), s...) }

func (n nameSpec) name() pkix.Name {
	return pkix.Name{Country: cp(n.country), Organization: cp(n.org), OrganizationalUnit: cp(n.ou), Locality: cp(n.loc),
		Province: cp(n.prov), StreetAddress: cp(n.street), PostalCode: cp(n.postal), SerialNumber: n.serial, CommonName: n.cn,
		ExtraNames: append([]pkix.AttributeTypeAndValue(nil), n.extra...)}
}

func eqStrs(a, b []string) bool {
	if len(a) != len(b) {
		return false
	}
	for i := range a {
		if a[i] != b[i] {
			return false
		}
	}
	return true
}

// several values of one attribute type go into ONE multi-valued RDN (pkix.Name.ToRDNSequence), a DER SET OF,
// whose elements encoding/asn1 sorts: the values of one type are compared as a multiset
func eqSet(a, b []string) bool {
	x, y := append([]string(nil), a...), append([]string(nil), b...)
	sort.Strings(x)
	sort.Strings(y)
	return eqStrs(x, y)
}

// first differing part of a name ("" if equal)
func (n nameSpec) diff(p pkix.Name) string {
	switch {
	case !eqSet(n.country, p.Country):
		return "Country"
	case !eqSet(n.org, p.Organization):
		return "Organization"
	case !eqSet(n.ou, p.OrganizationalUnit):
		return "OrganizationalUnit"
	case !eqSet(n.loc, p.Locality):
		return "Locality"
	case !eqSet(n.prov, p.Province):
		return "Province"
	case !eqSet(n.street, p.StreetAddress):
		return "StreetAddress"
	case !eqSet(n.postal, p.PostalCode):
		return "PostalCode"
	case n.serial != p.SerialNumber:
		return "SerialNumber"
	case n.cn != p.CommonName:
		return "CommonName"
	}
	used := make([]bool, len(p.Names))
	for _, e := range n.extra {
		found := false
		for i, q := range p.Names {
			if !used[i] && q.Type.Equal(e.Type) && fmt.Sprint(q.Value) == fmt.Sprint(e.Value) {
				used[i], found = true, true
				break
			}
		}
		if !found {
			return "ExtraNames"
		}
	}
	total := len(n.country) + len(n.org) + len(n.ou) + len(n.loc) + len(n.prov) + len(n.street) + len(n.postal) + len(n.extra)
	if n.serial != "" {
		total++
	}
	if n.cn != "" {
		total++
	}
	if total != len(p.Names) {
		return "Names.count"
	}
	return ""
}

var zones = []*time.Location{time.UTC, time.UTC, time.FixedZone("E8", 8*3600), time.FixedZone("NPT", 5*3600+45*60), time.FixedZone("W10", -10*3600)}

func genTime(r *hx.Rng, rich int) time.Time {
	if rich == 0 && r.Bool() {
		return time.Time{}
	}
	var t time.Time
	switch r.Intn(14) {
	case 0:
		t = time.Date(1950, 1, 1, 0, 0, 0, 0, time.UTC)
	case 1:
		t = time.Date(1949, 12, 31, 23, 59, 59, 0, time.UTC)
	case 2:
		t = time.Date(2049, 12, 31, 23, 59, 59, 0, time.UTC)
	case 3:
		t = time.Date(2050, 1, 1, 0, 0, 0, 0, time.UTC)
	case 4:
		t = time.Date(9999, 12, 31, 23, 59, 59, 0, time.UTC)
	case 5:
		t = time.Unix(0, 0).UTC()
	case 6:
		switch r.Intn(6) {
		case 0:
			t = time.Time{}
		case 1:
			t = time.Date(10000, 1, 1, 0, 0, 0, 0, time.UTC) // not representable: rejected by encoding/asn1
		case 2:
			t = time.Date(1, 1, 1, 0, 0, 1, 0, time.UTC)
		case 3:
			t = time.Date(2000, 2, 29, 12, 0, 0, 0, time.UTC)
		case 4:
			t = time.Date(2038, 1, 19, 3, 14, 8, 0, time.UTC)
		default:
			t = time.Date(1900, 1, 1, 0, 0, 0, 0, time.UTC)
		}
	default:
		t = time.Unix(int64(600000000+r.Intn(2400000000)), 0).UTC() // 1989 .. 2065
	}
	return t.In(zones[r.Intn(len(zones))])
}

func genSerial(r *hx.Rng, rich int) *big.Int {
	b20 := r.Bytes(20)
	switch r.Intn(16) {
	case 0:
		return big.NewInt(0)
	case 1:
		return big.NewInt(1)
	case 2:
		return big.NewInt(int64(r.Pick([]int{127, 128, 255, 256, 32767, 32768})))
	case 3:
		return big.NewInt(int64(-1 - r.Intn(3)))
	case 4:
		return big.NewInt(int64(r.Pick([]int{-127, -128, -129, -255, -256, -32768, -32769})))
	case 5: // 20 bytes, top bit clear
		b20[0] &= 0x7f
		b20[0] |= 0x40
		return new(big.Int).SetBytes(b20)
	case 6: // 20 bytes, top bit set (21 content octets in DER)
		b20[0] |= 0x80
		return new(big.Int).SetBytes(b20)
	case 7: // negative, 20 bytes of magnitude
		b20[0] |= 0x80
		return new(big.Int).Neg(new(big.Int).SetBytes(b20))
	case 8: // exactly -2^159
		return new(big.Int).Neg(new(big.Int).Lsh(big.NewInt(1), 159))
	case 9:
		return new(big.Int).SetBytes(r.Bytes(1 + r.Intn(40)))
	default:
		return new(big.Int).SetBytes(r.Bytes(8 + r.Intn(9)))
	}
}

var dnsPool = []string{"example.com", "*.example.org", "xn--fsq.com", "a", "", "EXAMPLE.COM", "münchen.de", "trailing.dot.",
	strings.Repeat("a234567890.", 22) + "com", "localhost", "1.2.3.4", "sub.*.example.com"}
var mailPool = []string{"a@b.c", "user+tag@example.com", "", "用户@例子.公司", "no-at-sign", "A@B.C"}
var urlPool = []string{"http://ocsp.example.com", "ldap://x.example/cn=y?z", "", "https://例子.cn/crl", "http://a/" + strings.Repeat("p", 150)}
var permPool = []string{"example.com", ".example.com", "com", "sub.example.org", "x"}

func genIP(r *hx.Rng) net.IP {
	switch r.Intn(9) {
	case 0:
		return net.IPv4(127, 0, 0, 1) // 16-byte form of an IPv4 address
	case 1:
		return net.IP{10, 0, 0, 1}
	case 2:
		return net.ParseIP("::1")
	case 3:
		return net.ParseIP("2001:db8::ff")
	case 4:
		return net.IPv4zero
	case 5:
		return net.ParseIP("::ffff:1.2.3.4")
	case 6:
		return net.IPv6zero
	case 7:
		return net.IP(r.Bytes(4))
	default:
		return net.IP(r.Bytes(16))
	}
}

func pickN(r *hx.Rng, rich int, pool []string) []string {
	n := 0
	switch {
	case rich == 0:
		return nil
	case rich == 1:
		n = 1 + r.Intn(3)
	default:
		n = r.Pick([]int{0, 0, 0, 1, 1, 2, 4})
	}
	var out []string
	for i := 0; i < n; i++ {
		out = append(out, pool[r.Intn(len(pool))])
	}
	return out
}

func genExtra(r *hx.Rng, rich int) []pkix.Extension {
	n := 0
	switch {
	case rich == 0:
		return nil
	case rich == 1:
		n = 1 + r.Intn(3)
	default:
		n = r.Pick([]int{0, 0, 0, 1, 1, 2, 3})
	}
	var out []pkix.Extension
	for i := 0; i < n; i++ {
		var id asn1.ObjectIdentifier
		switch r.Intn(4) {
		case 0:
			id = asn1.ObjectIdentifier{2, 5, 29, 99}
		case 1:
			id = asn1.ObjectIdentifier{1, 3, 6, 1, 4, 1, 311, 21, 7}
		default:
			id = genOID(r)
		}
		out = append(out, pkix.Extension{Id: id, Critical: r.Intn(3) == 0, Value: r.Bytes(r.Pick([]int{0, 1, 2, 5, 20, 40, 130, 300}))})
	}
	return out
}

func revBits(in byte) byte {
	var o byte
	for i := 0; i < 8; i++ {
		if in&(1<<uint(i)) != 0 {
			o |= 1 << uint(7-i)
		}
	}
	return o
}

// DER of the KeyUsage BIT STRING written from RFC 5280 (bit 0 = digitalSignature = most significant bit)
func keyUsageDER(ku int) []byte {
	a := []byte{revBits(byte(ku)), revBits(byte(ku >> 8))}
	if a[1] == 0 {
		a = a[:1]
	}
	bl := 0
	for i := 0; i < 9; i++ {
		if ku&(1<<uint(i)) != 0 {
			bl = i + 1
		}
	}
	d, err := asn1.Marshal(asn1.BitString{Bytes: a, BitLength: bl})
	if err != nil {
		panic(err)
	}
	return d
}

type certSpec struct {
	rich        int
	selfSigned  bool
	serial      *big.Int
	subj        nameSpec
	nb, na      time.Time
	ku          int
	kuOverride  int // -1 = none, else the value carried by a KeyUsage extension in ExtraExtensions
	eku         []x509.ExtKeyUsage
	ueku        []asn1.ObjectIdentifier
	bcValid     bool
	isCA        bool
	maxPath     int
	maxPathZero bool
	ski, aki    []byte
	dns, email  []string
	ips         []net.IP
	perm        []string
	permCrit    bool
	policies    []asn1.ObjectIdentifier
	ocsp, aia   []string
	crldp       []string
	extra       []pkix.Extension
	subjKey     int
}

func genCert(tseed uint64, signer string) *certSpec {
	r := hx.NewRng(tseed)
	s := &certSpec{kuOverride: -1}
	s.rich = r.Pick([]int{0, 1, 2, 2, 2, 2})
	rich := s.rich
	s.selfSigned = signer == "sm2" && r.Intn(8) == 0
	s.subjKey = 2
	s.serial = genSerial(r, rich)
	s.subj = genName(r, rich)
	s.nb, s.na = genTime(r, rich), genTime(r, rich)
	if rich == 0 {
		if s.selfSigned {
			s.bcValid, s.isCA = true, true
		}
		return s
	}
	s.ku = r.Pick([]int{0, 1, 2, 4, 8, 16, 32, 64, 128, 256, 0x1ff, 0x60, 0x05, 0x101, 0x180, r.Intn(0x200), r.Intn(0x200)})
	if rich == 1 && s.ku == 0 {
		s.ku = 1 + r.Intn(0x1ff)
	}
	ne := r.Pick([]int{0, 0, 1, 2, 3, 12})
	if rich == 1 && ne == 0 {
		ne = 2
	}
	for i := 0; i < ne; i++ {
		if ne == 12 {
			s.eku = append(s.eku, x509.ExtKeyUsage(i))
		} else {
			s.eku = append(s.eku, x509.ExtKeyUsage(r.Intn(12)))
		}
	}
	nu := r.Pick([]int{0, 0, 0, 1, 2})
	if rich == 1 {
		nu = 1 + r.Intn(2)
	}
	for i := 0; i < nu; i++ {
		s.ueku = append(s.ueku, genOID(r))
	}
	s.bcValid = rich == 1 || r.Intn(3) != 0
	s.isCA = r.Bool()
	s.maxPath = r.Pick([]int{-1, 0, 0, 0, 1, 2, 5, 127, 128, 255, 1 << 20})
	s.maxPathZero = r.Bool()
	if s.selfSigned { // a self-signed certificate can only vouch for itself when it is a CA allowed to sign
		s.bcValid, s.isCA = true, true
		if s.ku != 0 {
			s.ku |= int(x509.KeyUsageCertSign)
		}
	}
	if rich == 1 || r.Bool() {
		s.ski = r.Bytes(r.Pick([]int{20, 20, 20, 1, 8, 32, 64, 200}))
	}
	if rich == 1 || r.Intn(4) == 0 {
		s.aki = r.Bytes(r.Pick([]int{20, 20, 4, 32}))
	}
	s.dns, s.email = pickN(r, rich, dnsPool), pickN(r, rich, mailPool)
	ni := r.Pick([]int{0, 0, 1, 2, 5})
	if rich == 1 {
		ni = 3 + r.Intn(3)
	}
	for i := 0; i < ni; i++ {
		s.ips = append(s.ips, genIP(r))
	}
	s.perm = pickN(r, rich, permPool)
	if len(s.perm) > 0 && r.Intn(12) == 0 {
		s.perm[r.Intn(len(s.perm))] = []string{"", "münchen.de"}[r.Intn(2)] // empty base / non-IA5 base
	}
	s.permCrit = r.Bool()
	np := r.Pick([]int{0, 0, 1, 2, 6})
	if rich == 1 {
		np = 1 + r.Intn(3)
	}
	for i := 0; i < np; i++ {
		s.policies = append(s.policies, genOID(r))
	}
	s.ocsp, s.aia, s.crldp = pickN(r, rich, urlPool), pickN(r, rich, urlPool), pickN(r, rich, urlPool)
	s.extra = genExtra(r, rich)
	if rich == 2 && r.Intn(10) == 0 { // documented: ExtraExtensions override what the other fields would produce
		s.kuOverride = 1 + r.Intn(0x1ff)
		if s.selfSigned { // CheckSignatureFrom lets a certificate vouch for itself only with keyCertSign
			s.kuOverride |= int(x509.KeyUsageCertSign)
		}
		s.extra = append(s.extra, pkix.Extension{Id: asn1.ObjectIdentifier{2, 5, 29, 15}, Critical: true, Value: keyUsageDER(s.kuOverride)})
	}
	return s
}

func cpb(b []byte) []byte { return append([]byte(nil), b...) }

func cpExt(e []pkix.Extension) []pkix.Extension {
	var o []pkix.Extension
	for _, x := range e {
		o = append(o, pkix.Extension{Id: append(asn1.ObjectIdentifier(nil), x.Id...), Critical: x.Critical, Value: cpb(x.Value)})
	}
	return o
}

func cpOIDs(e []asn1.ObjectIdentifier) []asn1.ObjectIdentifier {
	var o []asn1.ObjectIdentifier
	for _, x := range e {
		o = append(o, append(asn1.ObjectIdentifier(nil), x...))
	}
	return o
}

func (s *certSpec) template(algo int) *x509.Certificate {
	var ips []net.IP
	for _, ip := range s.ips {
		ips = append(ips, append(net.IP(nil), ip...))
	}
	return &x509.Certificate{
		SerialNumber: new(big.Int).Set(s.serial), Subject: s.subj.name(), NotBefore: s.nb, NotAfter: s.na,
		KeyUsage: x509.KeyUsage(s.ku), ExtKeyUsage: append([]x509.ExtKeyUsage(nil), s.eku...), UnknownExtKeyUsage: cpOIDs(s.ueku),
		BasicConstraintsValid: s.bcValid, IsCA: s.isCA, MaxPathLen: s.maxPath, MaxPathLenZero: s.maxPathZero,
		SubjectKeyId: cpb(s.ski), AuthorityKeyId: cpb(s.aki), DNSNames: cp(s.dns), EmailAddresses: cp(s.email), IPAddresses: ips,
		PermittedDNSDomains: cp(s.perm), PermittedDNSDomainsCritical: s.permCrit, PolicyIdentifiers: cpOIDs(s.policies),
		OCSPServer: cp(s.ocsp), IssuingCertificateURL: cp(s.aia), CRLDistributionPoints: cp(s.crldp),
		ExtraExtensions: cpExt(s.extra), SignatureAlgorithm: x509.SignatureAlgorithm(algo),
	}
}

func eqOIDs(a, b []asn1.ObjectIdentifier) bool {
	if len(a) != len(b) {
		return false
	}
	for i := range a {
		if !a[i].Equal(b[i]) {
			return false
		}
	}
	return true
}

func hasExt(list []pkix.Extension, e pkix.Extension, withCritical bool) bool {
	for _, q := range list {
		if q.Id.Equal(e.Id) && bytes.Equal(q.Value, e.Value) && (!withCritical || q.Critical == e.Critical) {
			return true
		}
	}
	return false
}

func sameKey(parsed interface{}, want interface{}) bool {
	switch w := want.(type) {
	case *sm2.PublicKey:
		p, ok := parsed.(*ecdsa.PublicKey)
		return ok && p.Curve == sm2.P256Sm2() && p.X.Cmp(w.X) == 0 && p.Y.Cmp(w.Y) == 0
	case *ecdsa.PublicKey:
		p, ok := parsed.(*ecdsa.PublicKey)
		return ok && p.Curve == w.Curve && p.X.Cmp(w.X) == 0 && p.Y.Cmp(w.Y) == 0
	case *rsa.PublicKey:
		p, ok := parsed.(*rsa.PublicKey)
		return ok && p.N.Cmp(w.N) == 0 && p.E == w.E
	}
	return false
}

func eqTime(a, b time.Time) bool { return a.Truncate(time.Second).Equal(b.Truncate(time.Second)) }

// every field of the template against the parsed certificate; names of the fields that differ
func (s *certSpec) compare(p *x509.Certificate, issuer *x509.Certificate, signer string, algo int, subjPub *sm2.PublicKey) []string {
	var d []string
	add := func(name string, ok bool) {
		if !ok {
			d = append(d, name)
		}
	}
	add("Version", p.Version == 3)
	add("SerialNumber", p.SerialNumber != nil && p.SerialNumber.Cmp(s.serial) == 0)
	if x := s.subj.diff(p.Subject); x != "" {
		add("Subject."+x, false)
	}
	if s.selfSigned {
		if x := s.subj.diff(p.Issuer); x != "" {
			add("Issuer."+x, false)
		}
		add("RawIssuer", bytes.Equal(p.RawIssuer, p.RawSubject))
	} else {
		add("Issuer", bytes.Equal(p.RawIssuer, issuer.RawSubject) && p.Issuer.CommonName == issuer.Subject.CommonName &&
			eqStrs(p.Issuer.Organization, issuer.Subject.Organization) && eqStrs(p.Issuer.Country, issuer.Subject.Country))
	}
	add("NotBefore", eqTime(p.NotBefore, s.nb))
	add("NotAfter", eqTime(p.NotAfter, s.na))
	wantKU := s.ku
	if s.kuOverride >= 0 {
		wantKU = s.kuOverride
	}
	add("KeyUsage", int(p.KeyUsage) == wantKU)
	ekuOK := len(p.ExtKeyUsage) == len(s.eku)
	if ekuOK {
		for i := range s.eku {
			ekuOK = ekuOK && s.eku[i] == p.ExtKeyUsage[i]
		}
	}
	add("ExtKeyUsage", ekuOK)
	add("UnknownExtKeyUsage", eqOIDs(p.UnknownExtKeyUsage, s.ueku))
	add("BasicConstraintsValid", p.BasicConstraintsValid == s.bcValid)
	if s.bcValid {
		add("IsCA", p.IsCA == s.isCA)
		// Certificate struct comment: MaxPathLen==0 && !MaxPathLenZero means "not set"; unset parses back as -1
		want := s.maxPath
		if want == 0 && !s.maxPathZero {
			want = -1
		}
		add("MaxPathLen", p.MaxPathLen == want)
		add("MaxPathLenZero", p.MaxPathLenZero == (want == 0))
	}
	add("SubjectKeyId", bytes.Equal(p.SubjectKeyId, s.ski))
	if s.selfSigned {
		add("AuthorityKeyId", bytes.Equal(p.AuthorityKeyId, s.aki))
	} else {
		add("AuthorityKeyId", bytes.Equal(p.AuthorityKeyId, issuer.SubjectKeyId))
	}
	add("DNSNames", eqStrs(p.DNSNames, s.dns))
	add("EmailAddresses", eqStrs(p.EmailAddresses, s.email))
	ipOK := len(p.IPAddresses) == len(s.ips)
	if ipOK {
		for i := range s.ips {
			ipOK = ipOK && p.IPAddresses[i].Equal(s.ips[i])
		}
	}
	add("IPAddresses", ipOK)
	add("PermittedDNSDomains", eqStrs(p.PermittedDNSDomains, s.perm))
	if len(s.perm) > 0 {
		add("PermittedDNSDomainsCritical", p.PermittedDNSDomainsCritical == s.permCrit)
		crit, found := false, false
		for _, e := range p.Extensions {
			if e.Id.Equal(asn1.ObjectIdentifier{2, 5, 29, 30}) {
				crit, found = e.Critical, true
			}
		}
		add("NameConstraints.criticalFlag", found && crit == s.permCrit)
	}
	add("PolicyIdentifiers", eqOIDs(p.PolicyIdentifiers, s.policies))
	add("OCSPServer", eqStrs(p.OCSPServer, s.ocsp))
	add("IssuingCertificateURL", eqStrs(p.IssuingCertificateURL, s.aia))
	add("CRLDistributionPoints", eqStrs(p.CRLDistributionPoints, s.crldp))
	for _, e := range s.extra {
		if !hasExt(p.Extensions, e, true) {
			add("ExtraExtensions", false)
			break
		}
	}
	want := x509.SignatureAlgorithm(algo)
	if algo == 0 {
		want = defaultAlgo(signer)
	}
	add("SignatureAlgorithm", p.SignatureAlgorithm == want)
	add("PublicKeyAlgorithm", p.PublicKeyAlgorithm == x509.ECDSA)
	add("PublicKey", sameKey(p.PublicKey, subjPub))
	return d
}

// ---- certificate requests

type csrSpec struct {
	rich       int
	subj       nameSpec
	dns, email []string
	ips        []net.IP
	extra      []pkix.Extension
	attrKind   int // 0 none, 1 unknown attribute, 2 extensionRequest attribute carrying one extension
	attrOID    asn1.ObjectIdentifier
	attrVal    string
	attrExt    pkix.Extension
}

var oidExtReq = asn1.ObjectIdentifier{1, 2, 840, 113549, 1, 9, 14}

func genCSR(tseed uint64) *csrSpec {
	r := hx.NewRng(tseed)
	s := &csrSpec{}
	s.rich = r.Pick([]int{0, 1, 2, 2, 2, 2})
	s.subj = genName(r, s.rich)
	if s.rich == 0 {
		return s
	}
	s.dns, s.email = pickN(r, s.rich, dnsPool), pickN(r, s.rich, mailPool)
	ni := r.Pick([]int{0, 0, 1, 2, 5})
	if s.rich == 1 {
		ni = 2 + r.Intn(3)
	}
	for i := 0; i < ni; i++ {
		s.ips = append(s.ips, genIP(r))
	}
	s.extra = genExtra(r, s.rich)
	s.attrKind = r.Pick([]int{0, 0, 0, 0, 1, 1, 2})
	if s.rich == 1 {
		s.attrKind = 1 + r.Intn(2)
	}
	s.attrOID = genOID(r)
	s.attrVal = "attr " + genStr(r)
	s.attrExt = pkix.Extension{Id: genOID(r), Value: r.Bytes(1 + r.Intn(20))}
	return s
}

func (s *csrSpec) template(algo int) *x509.CertificateRequest {
	var ips []net.IP
	for _, ip := range s.ips {
		ips = append(ips, append(net.IP(nil), ip...))
	}
	t := &x509.CertificateRequest{Subject: s.subj.name(), DNSNames: cp(s.dns), EmailAddresses: cp(s.email), IPAddresses: ips,
		ExtraExtensions: cpExt(s.extra), SignatureAlgorithm: x509.SignatureAlgorithm(algo)}
	switch s.attrKind {
	case 1:
		t.Attributes = []pkix.AttributeTypeAndValueSET{{Type: s.attrOID, Value: [][]pkix.AttributeTypeAndValue{{{Type: asn1.ObjectIdentifier{2, 5, 4, 3}, Value: s.attrVal}}}}}
	case 2:
		t.Attributes = []pkix.AttributeTypeAndValueSET{{Type: oidExtReq, Value: [][]pkix.AttributeTypeAndValue{{{Type: s.attrExt.Id, Value: cpb(s.attrExt.Value)}}}}}
	}
	return t
}

func (s *csrSpec) compare(p *x509.CertificateRequest, signer string, algo int, pub interface{}) []string {
	var d []string
	add := func(name string, ok bool) {
		if !ok {
			d = append(d, name)
		}
	}
	add("Version", p.Version == 0)
	if x := s.subj.diff(p.Subject); x != "" {
		add("Subject."+x, false)
	}
	add("DNSNames", eqStrs(p.DNSNames, s.dns))
	add("EmailAddresses", eqStrs(p.EmailAddresses, s.email))
	ipOK := len(p.IPAddresses) == len(s.ips)
	if ipOK {
		for i := range s.ips {
			ipOK = ipOK && p.IPAddresses[i].Equal(s.ips[i])
		}
	}
	add("IPAddresses", ipOK)
	n := len(s.extra)
	for _, e := range s.extra {
		if !hasExt(p.Extensions, e, false) { // a request has no place for the critical flag
			add("ExtraExtensions", false)
			break
		}
	}
	if len(s.dns)+len(s.email)+len(s.ips) > 0 {
		n++
	}
	switch s.attrKind {
	case 1:
		found := false
		for _, a := range p.Attributes {
			if a.Type.Equal(s.attrOID) && len(a.Value) == 1 && len(a.Value[0]) == 1 && fmt.Sprint(a.Value[0][0].Value) == s.attrVal {
				found = true
			}
		}
		add("Attributes", found)
	case 2:
		n++
		add("Attributes.extensionRequest", hasExt(p.Extensions, s.attrExt, false))
	}
	add("Extensions.count", len(p.Extensions) == n)
	want := x509.SignatureAlgorithm(algo)
	if algo == 0 {
		want = defaultAlgo(signer)
	}
	add("SignatureAlgorithm", p.SignatureAlgorithm == want)
	wantPKA := x509.ECDSA
	if signer == "rsa" {
		wantPKA = x509.RSA
	}
	add("PublicKeyAlgorithm", p.PublicKeyAlgorithm == wantPKA)
	add("PublicKey", sameKey(p.PublicKey, pub))
	return d
}

// ---- revocation lists

type crlSpec struct {
	rich       int
	revoked    []pkix.RevokedCertificate
	this, next time.Time
	number     *big.Int
	extra      []pkix.Extension
}

func genCRL(tseed uint64, isRL bool) *crlSpec {
	r := hx.NewRng(tseed)
	s := &crlSpec{}
	s.rich = r.Pick([]int{0, 1, 2, 2, 2, 2})
	s.this, s.next = genTime(r, s.rich), genTime(r, s.rich)
	if isRL && s.next.Before(s.this) && r.Intn(8) != 0 { // CreateRevocationList refuses next < this; keep a few
		s.this, s.next = s.next, s.this
	}
	s.number = genSerial(r, s.rich)
	if s.number.Sign() < 0 && r.Intn(4) != 0 {
		s.number.Neg(s.number)
	}
	nr := r.Pick([]int{0, 1, 1, 2, 3, 8, 20})
	if s.rich == 0 {
		nr = 0
	}
	if s.rich == 1 && nr == 0 {
		nr = 2
	}
	for i := 0; i < nr; i++ {
		rc := pkix.RevokedCertificate{SerialNumber: genSerial(r, 2), RevocationTime: genTime(r, 2)}
		for k := r.Pick([]int{0, 0, 1, 2}); k > 0; k-- {
			switch r.Intn(3) {
			case 0: // reasonCode
				rc.Extensions = append(rc.Extensions, pkix.Extension{Id: asn1.ObjectIdentifier{2, 5, 29, 21}, Value: []byte{0x0a, 0x01, byte(r.Intn(11))}})
			case 1:
				rc.Extensions = append(rc.Extensions, pkix.Extension{Id: genOID(r), Critical: true, Value: r.Bytes(r.Intn(30))})
			default:
				rc.Extensions = append(rc.Extensions, pkix.Extension{Id: genOID(r), Value: r.Bytes(r.Intn(30))})
			}
		}
		s.revoked = append(s.revoked, rc)
	}
	if isRL {
		s.extra = genExtra(r, s.rich)
	}
	return s
}

func (s *crlSpec) revokedCopy() []pkix.RevokedCertificate {
	var o []pkix.RevokedCertificate
	for _, rc := range s.revoked {
		o = append(o, pkix.RevokedCertificate{SerialNumber: new(big.Int).Set(rc.SerialNumber), RevocationTime: rc.RevocationTime, Extensions: cpExt(rc.Extensions)})
	}
	return o
}

type akiT struct {
	Id []byte `asn1:"optional,tag:0"`
}

func (s *crlSpec) compare(p *pkix.CertificateList, issuer *x509.Certificate, signer string, algo int, isRL bool) []string {
	var d []string
	add := func(name string, ok bool) {
		if !ok {
			d = append(d, name)
		}
	}
	t := p.TBSCertList
	add("Version", t.Version == 1)
	a, e1 := asn1.Marshal(t.Issuer)
	b, e2 := asn1.Marshal(issuer.Subject.ToRDNSequence())
	add("Issuer", e1 == nil && e2 == nil && bytes.Equal(a, b))
	add("ThisUpdate", eqTime(t.ThisUpdate, s.this))
	add("NextUpdate", eqTime(t.NextUpdate, s.next))
	rOK := len(t.RevokedCertificates) == len(s.revoked)
	if rOK {
		for i, w := range s.revoked {
			g := t.RevokedCertificates[i]
			rOK = rOK && g.SerialNumber != nil && g.SerialNumber.Cmp(w.SerialNumber) == 0 && eqTime(g.RevocationTime, w.RevocationTime) && len(g.Extensions) == len(w.Extensions)
			if rOK {
				for j := range w.Extensions {
					rOK = rOK && g.Extensions[j].Id.Equal(w.Extensions[j].Id) && g.Extensions[j].Critical == w.Extensions[j].Critical && bytes.Equal(g.Extensions[j].Value, w.Extensions[j].Value)
				}
			}
		}
	}
	add("RevokedCertificates", rOK)
	akiDER, _ := asn1.Marshal(akiT{Id: issuer.SubjectKeyId})
	add("AuthorityKeyId", hasExt(t.Extensions, pkix.Extension{Id: asn1.ObjectIdentifier{2, 5, 29, 35}, Value: akiDER}, true))
	n := 1
	if isRL {
		numDER, _ := asn1.Marshal(s.number)
		add("Number", hasExt(t.Extensions, pkix.Extension{Id: asn1.ObjectIdentifier{2, 5, 29, 20}, Value: numDER}, true))
		n = 2 + len(s.extra)
		for _, e := range s.extra {
			if !hasExt(t.Extensions, e, true) {
				add("ExtraExtensions", false)
				break
			}
		}
	}
	add("Extensions.count", len(t.Extensions) == n)
	add("TBS.Signature=outer", t.Signature.Algorithm.Equal(p.SignatureAlgorithm.Algorithm) && bytes.Equal(t.Signature.Parameters.FullBytes, p.SignatureAlgorithm.Parameters.FullBytes))
	want := x509.SignatureAlgorithm(algo)
	if algo == 0 {
		want = defaultAlgo(signer)
	}
	add("SignatureAlgorithm", p.SignatureAlgorithm.Algorithm.Equal(algOID[want]))
	return d
}

// ------------------------------------------------------------------------------------------------
// DER regions and single-byte mutants

type region struct {
	hdr              int // outer header octets [0,hdr)
	tbs0, tbsH, tbs1 int // TBS element [tbs0,tbs1), its header [tbs0,tbs0+tbsH)
	alg0, algH, alg1 int
	sig0, sigH, sig1 int
	ok               bool
}

func regions(der []byte) region {
	var g region
	var outer asn1.RawValue
	rest, err := asn1.Unmarshal(der, &outer)
	if err != nil || len(rest) != 0 {
		return g
	}
	g.hdr = len(outer.FullBytes) - len(outer.Bytes)
	p, b := g.hdr, outer.Bytes
	var st, hl, en [3]int
	for i := 0; i < 3; i++ {
		var c asn1.RawValue
		b, err = asn1.Unmarshal(b, &c)
		if err != nil {
			return g
		}
		st[i], hl[i], en[i] = p, len(c.FullBytes)-len(c.Bytes), p+len(c.FullBytes)
		p = en[i]
	}
	if len(b) != 0 || p != len(der) {
		return g
	}
	g.tbs0, g.tbsH, g.tbs1 = st[0], hl[0], en[0]
	g.alg0, g.algH, g.alg1 = st[1], hl[1], en[1]
	g.sig0, g.sigH, g.sig1 = st[2], hl[2], en[2]
	g.ok = true
	return g
}

func (g region) of(p int) string {
	switch {
	case p < g.hdr:
		return "hdr"
	case p < g.tbs1:
		return "tbs"
	case p < g.alg1:
		return "alg"
	}
	return "sig"
}

type mutant struct {
	pos int
	val byte
}

// the mutants of one object: positions given all 255 other values ("exhaustive": every tag/length octet of the
// outer SEQUENCE, of the TBS, of the outer AlgorithmIdentifier and of the signature BIT STRING, its unused-bits
// octet, the tag/length octets of an (r,s) signature inside it, and - where the outer algorithm is the one that
// is used, i.e. not for certificates - the whole outer AlgorithmIdentifier), and positions given one value.
func mutants(der []byte, g region, kind, mode string, tseed uint64) []mutant {
	r := hx.NewRng(tseed ^ 0x6d757461746f72)
	n := len(der)
	exh := make([]bool, n)
	mark := func(a, b int) {
		for i := a; i < b && i < n; i++ {
			exh[i] = true
		}
	}
	mark(0, g.hdr)
	mark(g.tbs0, g.tbs0+g.tbsH)
	mark(g.alg0, g.alg0+g.algH)
	mark(g.sig0, g.sig0+g.sigH+1)
	if kind != "cert" { // the OID (all of a non-PSS identifier); the tail of PSS parameters gets one value per position
		e := g.alg1
		if e > g.alg0+16 {
			e = g.alg0 + 16
		}
		mark(g.alg0, e)
	}
	// (r,s) SEQUENCE inside the BIT STRING
	c := g.sig0 + g.sigH + 1
	if c+6 < n && der[c] == 0x30 && der[c+1] < 0x80 && der[c+2] == 0x02 && der[c+3] < 0x80 {
		mark(c, c+4)
		s := c + 4 + int(der[c+3])
		if s+2 <= n {
			mark(s, s+2)
		}
	}
	single := make([]bool, n)
	if mode == "a" {
		for i := range single {
			single[i] = true
		}
	} else {
		for i := 0; i < 200; i++ {
			single[r.Intn(n)] = true
		}
		for i := g.alg0; i < n; i++ { // outer algorithm and signature: every position
			single[i] = true
		}
	}
	var out []mutant
	k := 0
	for p := 0; p < n; p++ {
		if exh[p] {
			for v := 0; v < 256; v++ {
				if byte(v) != der[p] {
					out = append(out, mutant{p, byte(v)})
				}
			}
			continue
		}
		if !single[p] {
			continue
		}
		var v byte
		if k%2 == 0 {
			v = der[p] ^ (1 << uint(r.Intn(8)))
		} else {
			v = der[p] ^ byte(1+r.Intn(255))
		}
		k++
		out = append(out, mutant{p, v})
	}
	return out
}

// ------------------------------------------------------------------------------------------------

func b2s(b bool) string {
	if b {
		return "1"
	}
	return "0"
}

type outcome struct {
	created             bool
	errClass            string
	parseEq, vIss, vOth bool
	vIssS, vOthS        string // one character per verification entry point (certificates: CheckSignatureFrom, CheckSignature)
	nMut                int
	tbs, sig, alg, hdr  int
	detail              []string
	der                 []byte // certificates: the DER the predicate reads itself
}

func (o outcome) String() string {
	if !o.created {
		return "ok 0 - - - 0 0 0 0 0 " + o.errClass
	}
	d := "-"
	if len(o.detail) > 0 {
		d = strings.Join(o.detail, ",")
	}
	vi, vo := b2s(o.vIss), b2s(o.vOth)
	if o.vIssS != "" {
		vi, vo = o.vIssS, o.vOthS
	}
	out := fmt.Sprintf("ok 1 %s %s %s %d %d %d %d %d %s", b2s(o.parseEq), vi, vo, o.nMut, o.tbs, o.sig, o.alg, o.hdr, d)
	if o.der != nil {
		out += " " + hx.Hex(o.der)
	}
	return out
}

// The mutants run in chunks, each chunk under its own hx.Guard deadline: a case with thousands of (slow) SM2
// verifications on a loaded machine is not a hang, a single library call that does not return is.
// Result: "" or "PANIC" / "HANG".
func (o *outcome) runMutants(der []byte, kind, signer, mode string, tseed uint64, verify func([]byte) bool) string {
	g := regions(der)
	if !g.ok {
		o.detail = append(o.detail, "regions:unparsable")
		return ""
	}
	ms := mutants(der, g, kind, mode, tseed)
	o.nMut = len(ms)
	var surv []mutant
	const chunk = 256
	for i := 0; i < len(ms); i += chunk {
		part := ms[i:]
		if len(part) > chunk {
			part = part[:chunk]
		}
		var got []mutant
		res, _ := hx.Guard(deadline, func() string {
			m := make([]byte, len(der))
			var loc []mutant
			for _, x := range part {
				copy(m, der)
				m[x.pos] = x.val
				if verify(m) {
					loc = append(loc, x)
				}
			}
			got = loc
			return ""
		})
		if res != "" {
			return res
		}
		surv = append(surv, got...)
	}
	var firstAlg []string
	shown := 0
	for _, x := range surv {
		reg := g.of(x.pos)
		switch reg {
		case "tbs":
			o.tbs++
		case "sig":
			o.sig++
		case "alg":
			o.alg++
		default:
			o.hdr++
		}
		d := fmt.Sprintf("%d:%02x>%02x:%s", x.pos, der[x.pos], x.val, reg)
		// at most 5 survivors are listed; those outside the outer algorithm identifier have priority
		if reg != "alg" && shown < 5 {
			o.detail = append(o.detail, d)
			shown++
		} else if reg == "alg" && len(firstAlg) < 3 {
			firstAlg = append(firstAlg, d)
		}
	}
	if shown == 0 {
		o.detail = append(o.detail, firstAlg...)
	}
	// arithmetic changes of the signature VALUE (same object, signature re-encoded): none may verify
	am := arithMutants(der, g, signer)
	o.nMut += len(am)
	var asurv []string
	res, _ := hx.Guard(deadline, func() string {
		for _, x := range am {
			if verify(x.der) {
				asurv = append(asurv, "arith:"+strings.ReplaceAll(x.name, ",", "|"))
			}
		}
		return ""
	})
	if res != "" {
		return res
	}
	o.sig += len(asurv)
	if len(asurv) > 0 {
		o.detail = append(asurv, o.detail...)
	}
	return ""
}

// ------------------------------------------------------------------------------------------------
// arithmetic signature mutants: the signature value is decoded, changed as a number (or re-encoded in a
// non-canonical way) and spliced back into the object with all lengths fixed up.

type namedDER struct {
	name string
	der  []byte
}

func derLen(n int) []byte {
	switch {
	case n < 0x80:
		return []byte{byte(n)}
	case n < 0x100:
		return []byte{0x81, byte(n)}
	case n < 0x10000:
		return []byte{0x82, byte(n >> 8), byte(n)}
	}
	return []byte{0x83, byte(n >> 16), byte(n >> 8), byte(n)}
}

func derTLV(tag byte, content []byte) []byte {
	out := append([]byte{tag}, derLen(len(content))...)
	return append(out, content...)
}

// two's complement INTEGER content of v, with pad extra sign octets in front (pad=0: minimal)
func intContent(v *big.Int, pad int) []byte {
	var b []byte
	if v.Sign() >= 0 {
		b = v.Bytes()
		if len(b) == 0 || b[0]&0x80 != 0 {
			b = append([]byte{0}, b...)
		}
		for i := 0; i < pad; i++ {
			b = append([]byte{0}, b...)
		}
		return b
	}
	// negative: minimal n bytes with value + 2^(8n)
	n := len(new(big.Int).Abs(v).Bytes()) + 1
	t := new(big.Int).Add(v, new(big.Int).Lsh(big.NewInt(1), uint(8*n)))
	b = t.Bytes()
	for len(b) < n {
		b = append([]byte{0xff}, b...)
	}
	for len(b) > 1 && b[0] == 0xff && b[1]&0x80 != 0 {
		b = b[1:]
	}
	for i := 0; i < pad; i++ {
		b = append([]byte{0xff}, b...)
	}
	return b
}

func rsSeq(r, s *big.Int, padR, padS int) []byte {
	return derTLV(0x30, append(derTLV(0x02, intContent(r, padR)), derTLV(0x02, intContent(s, padS))...))
}

// the object with its signature BIT STRING replaced by sig (unused bits 0)
func spliceSig(der []byte, g region, sig []byte) []byte {
	body := append([]byte{}, der[g.tbs0:g.alg1]...)
	body = append(body, derTLV(0x03, append([]byte{0}, sig...))...)
	return derTLV(der[0], body)
}

func arithMutants(der []byte, g region, signer string) []namedDER {
	if g.sig1-g.sig0-g.sigH < 2 {
		return nil
	}
	sig := der[g.sig0+g.sigH+1 : g.sig1]
	var out []namedDER
	add := func(name string, newSig []byte) {
		if !bytes.Equal(newSig, sig) {
			out = append(out, namedDER{name, spliceSig(der, g, newSig)})
		}
	}
	if signer == "rsa" {
		pub, ok := signerOf(signer).Public().(*rsa.PublicKey)
		if !ok {
			return nil
		}
		c := new(big.Int).SetBytes(sig)
		k := (pub.N.BitLen() + 7) / 8
		cn := new(big.Int).Add(c, pub.N)
		add("c+N", cn.Bytes())
		if b := cn.Bytes(); len(b) <= k {
			add("c+N:k", append(make([]byte, k-len(b)), b...))
		}
		add("0||c", append([]byte{0}, sig...))
		add("c:minimal", c.Bytes())
		add("N-c", new(big.Int).Sub(pub.N, c).Bytes())
		return out
	}
	var N *big.Int
	switch signer {
	case "sm2":
		N = sm2.P256Sm2().Params().N
	case "p256":
		N = elliptic.P256().Params().N
	default:
		return nil
	}
	var rs struct{ R, S *big.Int }
	if rest, err := asn1.Unmarshal(sig, &rs); err != nil || len(rest) != 0 || rs.R == nil || rs.S == nil {
		return nil
	}
	r, sv := rs.R, rs.S
	plus := func(a *big.Int, k int64) *big.Int { return new(big.Int).Add(a, new(big.Int).Mul(N, big.NewInt(k))) }
	add("r,s+N", rsSeq(r, plus(sv, 1), 0, 0))
	add("r+N,s", rsSeq(plus(r, 1), sv, 0, 0))
	add("r,s+2N", rsSeq(r, plus(sv, 2), 0, 0))
	add("r+N,s+N", rsSeq(plus(r, 1), plus(sv, 1), 0, 0))
	add("r+2N,s", rsSeq(plus(r, 2), sv, 0, 0))
	add("r,s-N", rsSeq(r, plus(sv, -1), 0, 0))
	add("r-N,s", rsSeq(plus(r, -1), sv, 0, 0))
	add("s,r", rsSeq(sv, r, 0, 0))
	add("-r,-s", rsSeq(new(big.Int).Neg(r), new(big.Int).Neg(sv), 0, 0))
	if signer == "sm2" {
		// for plain ECDSA (r, N-s) is the well-known second signature of the same message (a property of ECDSA
		// itself, verified by crypto/ecdsa); SM2 has no such symmetry
		add("r,N-s", rsSeq(r, new(big.Int).Sub(N, sv), 0, 0))
		add("N-r,s", rsSeq(new(big.Int).Sub(N, r), sv, 0, 0))
		add("N-r,N-s", rsSeq(new(big.Int).Sub(N, r), new(big.Int).Sub(N, sv), 0, 0))
	}
	// non-canonical encodings of the same numbers
	add("00||r,s", rsSeq(r, sv, 1, 0))
	add("r,00||s", rsSeq(r, sv, 0, 1))
	add("00||r,00||s", rsSeq(r, sv, 1, 1))
	add("0000||r,s", rsSeq(r, sv, 2, 0))
	// long-form length octets for the inner SEQUENCE and for an INTEGER
	ri, si := derTLV(0x02, intContent(r, 0)), derTLV(0x02, intContent(sv, 0))
	body := append(append([]byte{}, ri...), si...)
	add("seq-longlen", append([]byte{0x30, 0x81, byte(len(body))}, body...))
	rc := intContent(r, 0)
	ri2 := append([]byte{0x02, 0x81, byte(len(rc))}, rc...)
	add("int-longlen", derTLV(0x30, append(append([]byte{}, ri2...), si...)))
	// trailing garbage inside the BIT STRING and inside the SEQUENCE
	add("rs||00", append(append([]byte{}, sig...), 0))
	add("seq+extra-int", derTLV(0x30, append(append([]byte{}, body...), 0x02, 0x01, 0x00)))
	return out
}

func diffDetail(d []string) []string {
	if len(d) == 0 {
		return nil
	}
	return []string{"diff:" + slug(strings.Join(d, "+"))}
}

type mutWork struct {
	der    []byte
	verify func([]byte) bool
}

// create, parse, compare, verify; the mutants are handed back as work (run by runT outside this guard)
func phase1(f []string, o *outcome, work **mutWork) string {
	kind, signer := f[2], f[3]
	algo, _ := strconv.Atoi(f[4])
	tseed, _ := strconv.ParseUint(f[5], 10, 64)
	if e := W.err[signer]; e != "" {
		return "err " + e
	}
	key := signerOf(signer)
	issA, issB := W.iss[signer][0], W.iss[signer][1]
	switch kind {
	case "cert":
		s := genCert(tseed, signer)
		subj := &W.sm2k[s.subjKey].PublicKey
		tmpl := s.template(algo)
		parent := issA
		if s.selfSigned {
			parent, subj = tmpl, &W.sm2k[0].PublicKey
		}
		der, err := x509.CreateCertificate(tmpl, parent, subj, key)
		if err != nil {
			o.errClass = slug(err.Error())
			return o.String()
		}
		o.created = true
		o.der = der
		p, err := x509.ParseCertificate(der)
		if err != nil {
			o.detail = []string{"parsefail:" + slug(err.Error())}
			return o.String()
		}
		issuer := issA
		if s.selfSigned {
			issuer = p
		}
		d := s.compare(p, issuer, signer, algo, subj)
		o.parseEq = len(d) == 0
		o.detail = diffDetail(d)
		// the two entry points are observed separately: a wrong accept in one of them must show
		from := func(c *x509.Certificate, by *x509.Certificate) bool { return c.CheckSignatureFrom(by) == nil }
		direct := func(c *x509.Certificate, by *x509.Certificate) bool {
			return by.CheckSignature(c.SignatureAlgorithm, c.RawTBSCertificate, c.Signature) == nil
		}
		chk := func(c *x509.Certificate, by *x509.Certificate) bool { return from(c, by) || direct(c, by) } // a mutant survives if EITHER accepts
		o.vIss = from(p, issuer) && direct(p, issuer)
		o.vOth = from(p, issB) || direct(p, issB)
		o.vIssS = b2s(from(p, issuer)) + b2s(direct(p, issuer))
		o.vOthS = b2s(from(p, issB)) + b2s(direct(p, issB))
		if os.Getenv("C09_DEBUG") != "" {
			fmt.Fprintf(os.Stderr, "debug %s selfSigned=%v CheckSignatureFrom=%v CheckSignature=%v ku=%d bc=%v ca=%v der=%x\n", f[1], s.selfSigned,
				p.CheckSignatureFrom(issuer), issuer.CheckSignature(p.SignatureAlgorithm, p.RawTBSCertificate, p.Signature), p.KeyUsage, p.BasicConstraintsValid, p.IsCA, der)
		}
		if o.vIss {
			*work = &mutWork{der, func(m []byte) bool {
				c, err := x509.ParseCertificate(m)
				return err == nil && c != nil && chk(c, issuer)
			}}
		}
	case "csr":
		s := genCSR(tseed)
		der, err := x509.CreateCertificateRequest(rand.Reader, s.template(algo), key)
		if err != nil {
			o.errClass = slug(err.Error())
			return o.String()
		}
		o.created = true
		p, err := x509.ParseCertificateRequest(der)
		if err != nil {
			o.detail = []string{"parsefail:" + slug(err.Error())}
			return o.String()
		}
		d := s.compare(p, signer, algo, key.Public())
		o.parseEq = len(d) == 0
		o.detail = diffDetail(d)
		o.vIss = p.CheckSignature() == nil
		q := *p
		q.PublicKey = otherPub(signer)
		o.vOth = q.CheckSignature() == nil
		if o.vIss {
			*work = &mutWork{der, func(m []byte) bool {
				c, err := x509.ParseCertificateRequest(m)
				return err == nil && c != nil && c.CheckSignature() == nil
			}}
		}
	case "crl", "rl":
		s := genCRL(tseed, kind == "rl")
		var der []byte
		var err error
		if kind == "crl" {
			der, err = issA.CreateCRL(rand.Reader, key, s.revokedCopy(), s.this, s.next)
		} else {
			der, err = x509.CreateRevocationList(rand.Reader, &x509.RevocationList{SignatureAlgorithm: x509.SignatureAlgorithm(algo),
				RevokedCertificates: s.revokedCopy(), Number: new(big.Int).Set(s.number), ThisUpdate: s.this, NextUpdate: s.next,
				ExtraExtensions: cpExt(s.extra)}, issA, key)
		}
		if err != nil {
			o.errClass = slug(err.Error())
			return o.String()
		}
		o.created = true
		p, err := x509.ParseDERCRL(der)
		if err != nil {
			o.detail = []string{"parsefail:" + slug(err.Error())}
			return o.String()
		}
		if p2, err := x509.ParseCRL(der); err != nil || !bytes.Equal(p2.TBSCertList.Raw, p.TBSCertList.Raw) {
			o.detail = []string{"parsefail:ParseCRL_differs_from_ParseDERCRL"}
			return o.String()
		}
		d := s.compare(p, issA, signer, algo, kind == "rl")
		o.parseEq = len(d) == 0
		o.detail = diffDetail(d)
		o.vIss = issA.CheckCRLSignature(p) == nil
		o.vOth = issB.CheckCRLSignature(p) == nil
		if o.vIss {
			*work = &mutWork{der, func(m []byte) bool {
				c, err := x509.ParseDERCRL(m)
				return err == nil && c != nil && issA.CheckCRLSignature(c) == nil
			}}
		}
	default:
		return "BADCASE"
	}
	return o.String()
}

func runT(f []string) string {
	var o outcome
	var work *mutWork
	tseed, _ := strconv.ParseUint(f[5], 10, 64)
	if res, _ := hx.Guard(deadline, func() string { return phase1(f, &o, &work) }); res == "PANIC" || res == "HANG" || work == nil {
		return res
	}
	if res := o.runMutants(work.der, f[2], f[3], f[6], tseed, work.verify); res != "" {
		return res
	}
	return o.String()
}

func runCase(line string) string {
	f := strings.Split(line, " ")
	if len(f) == 4 && f[0] == "Y" {
		res, _ := hx.Guard(10*deadline, func() string { return runYU(f) })
		return f[1] + " " + res
	}
	if len(f) >= 3 && f[0] == "Y" {
		res, _ := hx.Guard(10*deadline, func() string { return runY(f) })
		return f[1] + " " + res
	}
	if len(f) == 6 && f[0] == "P" {
		res, _ := hx.Guard(4*deadline, func() string { return runP(f) })
		return f[1] + " " + res
	}
	if len(f) == 6 && f[0] == "Q" && f[2] == "bundle" {
		res, _ := hx.Guard(4*deadline, func() string { return runBundle(f) })
		return f[1] + " " + res
	}
	if len(f) == 5 && f[0] == "Q" {
		res, _ := hx.Guard(4*deadline, func() string { return runQ(f) })
		return f[1] + " " + res
	}
	if len(f) >= 3 && f[0] == "E" && f[2] == "tbsc" {
		res, _ := hx.Guard(deadline, func() string { return runTBSC(f) })
		return f[1] + " " + res
	}
	if len(f) >= 3 && f[0] == "E" && f[2] == "tbs" {
		res, _ := hx.Guard(deadline, func() string { return runTBS(f) })
		return f[1] + " " + res
	}
	if len(f) >= 3 && f[0] == "E" {
		res, _ := hx.Guard(deadline, func() string { return runE(f) })
		return f[1] + " " + res
	}
	if len(f) < 7 || len(f) > 9 || f[0] != "T" {
		id := "?"
		if len(f) > 1 {
			id = f[1]
		}
		return id + " BADCASE"
	}
	t0 := time.Now()
	res := runT(f)
	if os.Getenv("C09_TIMING") != "" {
		fmt.Fprintf(os.Stderr, "timing %s %s %s %s %d ms\n", f[1], f[2], f[3], f[4], time.Since(t0).Milliseconds())
	}
	return f[1] + " " + res
}

func runAll(lines []string) []string {
	out := make([]string, len(lines))
	var wg sync.WaitGroup
	ch := make(chan int, len(lines))
	for i := range lines {
		ch <- i
	}
	close(ch)
	nw := runtime.NumCPU()
	if nw > 16 {
		nw = 16
	}
	if nw < 1 {
		nw = 1
	}
	for w := 0; w < nw; w++ {
		wg.Add(1)
		go func() {
			defer wg.Done()
			for i := range ch {
				out[i] = runCase(lines[i])
			}
		}()
	}
	wg.Wait()
	return out
}

// ------------------------------------------------------------------------------------------------

var allAlgos = []int{0, 1, 2, 3, 4, 5, 6, 7, 8, 9, 10, 11, 12, 13, 14, 15, 16, 17, 18, 19, 99, -1}

var family = map[string][]int{"sm2": {16, 17, 18}, "rsa": {3, 4, 5, 6, 13, 14, 15}, "p256": {9, 10, 11, 12}}

// does the template derived from tseed contain one of the values the generator plants to be REFUSED (a string that
// is not UTF-8, a year above 9999, a name constraint that is not IA5, NextUpdate before ThisUpdate)?  Decided on the
// generated values alone (the package is not asked).  The systematic kind x signer x algorithm block of the
// generator uses templates without such values, so that each combination shows what the algorithm choice does.
func certFields(s *certSpec) string {
	ku := s.ku
	if s.kuOverride >= 0 {
		ku = s.kuOverride
	}
	ips := make([][]byte, len(s.ips))
	for i, ip := range s.ips {
		ips[i] = []byte(ip)
	}
	k := W.sm2k[s.subjKey]
	if s.selfSigned {
		k = W.sm2k[0]
	}
	return fmt.Sprintf("%s;%d;%d;%d;%s,%s,%d,%s;%s;%s;%s;%s;%s", s.serial.String(), s.nb.Unix(), s.na.Unix(), ku,
		b2s(s.bcValid), b2s(s.isCA), s.maxPath, b2s(s.maxPathZero), hexStrs(s.dns), hexStrs(s.email), hx.HexList(ips),
		hx.Hex(k.X.Bytes()), hx.Hex(k.Y.Bytes()))
}

func plantedReject(kind, signer string, tseed uint64) bool {
	badName := func(n nameSpec) bool {
		all := [][]string{n.country, n.org, n.ou, n.loc, n.prov, n.street, n.postal, {n.serial, n.cn}}
		for _, l := range all {
			for _, x := range l {
				if !utf8.ValidString(x) {
					return true
				}
			}
		}
		for _, e := range n.extra {
			if x, ok := e.Value.(string); ok && !utf8.ValidString(x) {
				return true
			}
		}
		return false
	}
	badTime := func(t time.Time) bool { return t.UTC().Year() > 9999 }
	switch kind {
	case "cert":
		s := genCert(tseed, signer)
		for _, x := range s.perm {
			if x == "" { // refused since 26cf598
				return true
			}
			for i := 0; i < len(x); i++ {
				if x[i] >= 0x80 {
					return true
				}
			}
		}
		return badName(s.subj) || badTime(s.nb) || badTime(s.na)
	case "csr":
		s := genCSR(tseed)
		return badName(s.subj) || (s.attrKind == 1 && !utf8.ValidString(s.attrVal))
	default:
		s := genCRL(tseed, kind == "rl")
		for _, rc := range s.revoked {
			if badTime(rc.RevocationTime) {
				return true
			}
		}
		return badTime(s.this) || badTime(s.next) || (kind == "rl" && s.next.Before(s.this))
	}
}

func gen(seed uint64, tier string) []string {
	r := hx.NewRng(seed)
	// measured: about 0.25 CPU-s per case in mode q and 0.65 CPU-s in mode a (SM2 verification ~1.4 ms dominates)
	mode, nRand := "q", 240
	if tier == "thorough" {
		mode, nRand = "a", 2600
	}
	var lines []string
	id := 0
	emit := func(kind, signer string, algo int, tseed uint64) {
		id++
		// last field: v = the template is inside the documented domain of its fields (creation must succeed when the
		// (signer, algorithm) pair is acceptable), x = it carries a planted invalid value (computed from the spec, never
		// by calling the library)
		tmpl := "v"
		if plantedReject(kind, signer, tseed) {
			tmpl = "x"
		}
		// 9th field (certificates): the template values of the fields the property names, for the predicate's own
		// DER reader: serial;notBefore;notAfter;keyUsage;bcValid,isCA,maxPathLen,maxPathLenZero;dns;emails;ips;pubX;pubY
		flds := "-"
		if kind == "cert" && tmpl == "v" {
			flds = certFields(genCert(tseed, signer))
		}
		lines = append(lines, fmt.Sprintf("T %d %s %s %d %d %s %s %s", id, kind, signer, algo, tseed, mode, tmpl, flds))
	}
	signers := []string{"sm2", "rsa", "p256"}
	clean := func(kind, signer string) uint64 {
		for {
			if t := r.U64(); !plantedReject(kind, signer, t) {
				return t
			}
		}
	}
	reps := 1
	if tier == "thorough" {
		reps = 2
	}
	for rep := 0; rep < reps; rep++ {
		for _, kind := range []string{"cert", "csr", "rl"} {
			for _, s := range signers {
				for _, a := range allAlgos {
					emit(kind, s, a, clean(kind, s))
				}
			}
		}
		for _, s := range signers {
			emit("crl", s, 0, clean("crl", s))
		}
	}
	for i := 0; i < nRand; i++ {
		kind := []string{"cert", "cert", "cert", "cert", "cert", "csr", "csr", "rl", "crl", "crl"}[r.Intn(10)]
		s := []string{"sm2", "sm2", "sm2", "rsa", "p256", "p256"}[r.Intn(6)]
		algo := 0
		switch r.Intn(10) {
		case 0, 1, 2:
		case 3:
			algo = allAlgos[r.Intn(len(allAlgos))]
		default:
			fam := family[s]
			algo = fam[r.Intn(len(fam))]
		}
		if kind == "crl" {
			algo = 0
		}
		emit(kind, s, algo, r.U64())
	}
	nY := 6
	if tier == "thorough" {
		nY = 40
	}
	for i := 0; i < nY; i++ {
		id++
		lines = append(lines, genY(r, id, i))
	}
	nP, nQ := 40, 36
	if tier == "thorough" {
		nP, nQ = 400, 360
	}
	for i := 0; i < nP; i++ {
		id++
		lines = append(lines, genP(r, id, i))
	}
	for i := 0; i < nQ; i++ {
		id++
		lines = append(lines, genQ(r, id, i))
	}
	nE := 400
	if tier == "thorough" {
		nE = 4000
	}
	for i := 0; i < nE; i++ {
		id++
		if i%5 == 4 {
			lines = append(lines, genTBS(r, id))
		} else if i%5 == 3 {
			lines = append(lines, genTBSC(r, id))
		} else {
			lines = append(lines, genE(r, id))
		}
	}
	// user-id histories on one key object (Y lines with an operation list); last, so that the earlier case lines of a seed stay what they were
	nYU := 24
	if tier == "thorough" {
		nYU = 240
	}
	for i := 0; i < nYU; i++ {
		id++
		lines = append(lines, genYU(r, id, i))
	}
	// bundles read back through ParseCertificates (Q lines with six fields)
	nB := 30
	if tier == "thorough" {
		nB = 300
	}
	for i := 0; i < nB; i++ {
		id++
		lines = append(lines, genBundle(r, id, i, clean))
	}
	return lines
}

func main() {
	if pf := os.Getenv("C09_PROF"); pf != "" {
		f, err := os.Create(pf)
		if err == nil {
			pprof.StartCPUProfile(f)
			defer pprof.StopCPUProfile()
		}
	}
	if len(os.Args) >= 6 && os.Args[1] == "gen" {
		seed, _ := strconv.ParseUint(os.Args[2], 10, 64)
		setup()
		o := hx.NewOut(os.Args[4], os.Args[5])
		lines := gen(seed, os.Args[3])
		for _, l := range lines {
			o.Case(l)
		}
		for _, l := range runAll(lines) {
			o.Obs(l)
		}
		o.Retry(runCase) // a case that ran out of time in this pass is re-run alone with 10x deadlines
		o.Close()
		return
	}
	if len(os.Args) >= 4 && os.Args[1] == "run" {
		setup()
		o := hx.NewOut(os.DevNull, os.Args[3])
		var lines []string
		for _, l := range hx.ReadLines(os.Args[2]) {
			if !strings.HasPrefix(l, "#") {
				lines = append(lines, l)
			}
		}
		for _, l := range runAll(lines) {
			o.Obs(l)
		}
		o.Retry(runCase) // a case that ran out of time in this pass is re-run alone with 10x deadlines
		o.Close()
		return
	}
	fmt.Fprintln(os.Stderr, "usage: c09 gen <seed> <tier> <cases> <obs> | c09 run <cases> <obs>")
	os.Exit(2)
}

// ------------------------------------------------------------------------------------------------
// E cases: one extension, bytes in / bytes out.  The extension value the library writes for the given
// fields (taken from a created and re-parsed certificate) and the fields it parses back; the Coq model
// (X509/ExtModel.v) computes both from the same inputs.
//
//	E <id> san <dns> <emails> <ips>        hex lists            -> ok <value> <dns> <emails> <ips>
//	E <id> eku <ekus> <unknown-oids>       ints, dotted OIDs    -> ok <value> <ekus> <unknown-oids>
//	E <id> pol <oids>                                            -> ok <value> <oids>
//	E <id> nc <critical> <domains>         0/1, hex list        -> ok <value> <critical> <domains>
//	E <id> ncx <critical> <value>          0/1, hex (any NameConstraints value, as extra extension) -> as nc
//	E <id> ski <keyid> / E <id> aki <keyid>  hex                 -> ok <value> <keyid>
//	every kind: err create | err parse | PANIC

var (
	oidExtSAN = asn1.ObjectIdentifier{2, 5, 29, 17}
	oidExtEKU = asn1.ObjectIdentifier{2, 5, 29, 37}
	oidExtPol = asn1.ObjectIdentifier{2, 5, 29, 32}
	oidExtNC  = asn1.ObjectIdentifier{2, 5, 29, 30}
	oidExtSKI = asn1.ObjectIdentifier{2, 5, 29, 14}
	oidExtAKI = asn1.ObjectIdentifier{2, 5, 29, 35}
)

func unOIDs(s string) []asn1.ObjectIdentifier {
	if s == "-" || s == "" {
		return nil
	}
	var out []asn1.ObjectIdentifier
	for _, o := range strings.Split(s, ",") {
		var oid asn1.ObjectIdentifier
		for _, a := range strings.Split(o, ".") {
			v, _ := strconv.ParseInt(a, 10, 64)
			oid = append(oid, int(v))
		}
		out = append(out, oid)
	}
	return out
}

func oidsStr(v []asn1.ObjectIdentifier) string {
	if len(v) == 0 {
		return "-"
	}
	p := make([]string, len(v))
	for i, o := range v {
		q := make([]string, len(o))
		for j, a := range o {
			q[j] = strconv.Itoa(a)
		}
		p[i] = strings.Join(q, ".")
	}
	return strings.Join(p, ",")
}

func strsOf(b [][]byte) []string {
	out := make([]string, len(b))
	for i, x := range b {
		out[i] = string(x)
	}
	return out
}

func hexStrs(v []string) string {
	b := make([][]byte, len(v))
	for i, x := range v {
		b[i] = []byte(x)
	}
	return hx.HexList(b)
}

func runE(f []string) string {
	kind := f[2]
	t := &x509.Certificate{SerialNumber: big.NewInt(7), Subject: pkix.Name{CommonName: "e"},
		NotBefore: time.Unix(1700000000, 0), NotAfter: time.Unix(1800000000, 0), SignatureAlgorithm: x509.SM2WithSM3}
	parent := &x509.Certificate{Subject: pkix.Name{CommonName: "p"}}
	var want asn1.ObjectIdentifier
	switch kind {
	case "san":
		t.DNSNames, t.EmailAddresses = strsOf(hx.UnHexList(f[3])), strsOf(hx.UnHexList(f[4]))
		for _, ip := range hx.UnHexList(f[5]) {
			t.IPAddresses = append(t.IPAddresses, net.IP(ip))
		}
		want = oidExtSAN
	case "eku":
		for _, u := range hx.UnInts(f[3]) {
			t.ExtKeyUsage = append(t.ExtKeyUsage, x509.ExtKeyUsage(u))
		}
		t.UnknownExtKeyUsage = unOIDs(f[4])
		want = oidExtEKU
	case "pol":
		t.PolicyIdentifiers = unOIDs(f[3])
		want = oidExtPol
	case "nc":
		t.PermittedDNSDomainsCritical = f[3] == "1"
		t.PermittedDNSDomains = strsOf(hx.UnHexList(f[4]))
		want = oidExtNC
	case "ncx": // an arbitrary NameConstraints value, put into the certificate as an extra extension
		t.ExtraExtensions = []pkix.Extension{{Id: oidExtNC, Critical: f[3] == "1", Value: hx.UnHex(f[4])}}
		want = oidExtNC
	case "ski":
		t.SubjectKeyId = hx.UnHex(f[3])
		want = oidExtSKI
	case "aki":
		parent.SubjectKeyId = hx.UnHex(f[3])
		want = oidExtAKI
	default:
		return "BADCASE"
	}
	der, err := x509.CreateCertificate(t, parent, &W.sm2k[1].PublicKey, W.sm2k[0])
	if err != nil {
		return "err create"
	}
	c, err := x509.ParseCertificate(der)
	if err != nil {
		return "err parse"
	}
	var val []byte
	found := false
	for _, e := range c.Extensions {
		if e.Id.Equal(want) {
			val, found = e.Value, true
		}
	}
	if !found {
		return "ok - absent"
	}
	switch kind {
	case "san":
		ips := make([][]byte, len(c.IPAddresses))
		for i, ip := range c.IPAddresses {
			ips[i] = []byte(ip)
		}
		return fmt.Sprintf("ok %s %s %s %s", hx.Hex(val), hexStrs(c.DNSNames), hexStrs(c.EmailAddresses), hx.HexList(ips))
	case "eku":
		us := make([]int, len(c.ExtKeyUsage))
		for i, u := range c.ExtKeyUsage {
			us[i] = int(u)
		}
		return fmt.Sprintf("ok %s %s %s", hx.Hex(val), hx.Ints(us), oidsStr(c.UnknownExtKeyUsage))
	case "pol":
		return fmt.Sprintf("ok %s %s", hx.Hex(val), oidsStr(c.PolicyIdentifiers))
	case "nc", "ncx":
		return fmt.Sprintf("ok %s %s %s", hx.Hex(val), b2s(c.PermittedDNSDomainsCritical), hexStrs(c.PermittedDNSDomains))
	case "ski":
		return fmt.Sprintf("ok %s %s", hx.Hex(val), hx.Hex(c.SubjectKeyId))
	case "aki":
		return fmt.Sprintf("ok %s %s", hx.Hex(val), hx.Hex(c.AuthorityKeyId))
	}
	return "BADCASE"
}

func genBytesE(r *hx.Rng, ia5 bool) []byte {
	n := r.Pick([]int{0, 1, 1, 3, 7, 11, 20, 64, 127, 128, 129, 200, 255, 256, 300})
	if r.Intn(40) == 0 {
		n = 65536 + r.Intn(10)
	}
	b := make([]byte, n)
	for i := range b {
		if ia5 {
			b[i] = byte(33 + r.Intn(94))
		} else {
			b[i] = byte(r.U64())
		}
	}
	return b
}

func genOIDE(r *hx.Rng) asn1.ObjectIdentifier {
	var o asn1.ObjectIdentifier
	switch r.Intn(12) {
	case 0:
		return asn1.ObjectIdentifier{1, 3, 6, 1, 5, 5, 7, 3, 1 + r.Intn(9)} // a known EKU
	case 1:
		return asn1.ObjectIdentifier{2, 5, 29, 37, 0}
	case 2:
		o = asn1.ObjectIdentifier{3, 1} // invalid
	case 3:
		o = asn1.ObjectIdentifier{1, 40} // invalid
	case 4:
		o = asn1.ObjectIdentifier{2, 999}
	case 5:
		o = asn1.ObjectIdentifier{r.Intn(3)} // too short
	default:
		o = asn1.ObjectIdentifier{r.Intn(3), r.Intn(40)}
	}
	for n := r.Intn(7); n > 0; n-- {
		o = append(o, r.Pick([]int{0, 1, 127, 128, 129, 16383, 16384, 2097151, 2097152, 268435455, 268435456, 2147483647, r.Intn(1 << 20)}))
	}
	return o
}

func genE(r *hx.Rng, id int) string {
	list := func(n int, ia5 bool) string {
		var v [][]byte
		for i := 0; i < n; i++ {
			v = append(v, genBytesE(r, ia5))
		}
		return hx.HexList(v)
	}
	oids := func(n int) string {
		var v []asn1.ObjectIdentifier
		for i := 0; i < n; i++ {
			v = append(v, genOIDE(r))
		}
		return oidsStr(v)
	}
	switch r.Intn(7) {
	case 6:
		gname := func() []byte {
			switch r.Intn(8) {
			case 0:
				return derTLV(0x87, r.Bytes(r.Pick([]int{8, 32}))) // iPAddress range
			case 1:
				return derTLV(0x81, []byte("x@example.com"))
			case 2:
				return derTLV(0x86, []byte(".example.com"))
			case 3:
				return derTLV(0xa4, derTLV(0x30, derTLV(0x31, derTLV(0x30, append(derTLV(0x06, []byte{0x55, 4, 3}), derTLV(0x0c, []byte("cn"))...)))))
			case 4:
				return derTLV(0x82, genBytesE(r, r.Intn(6) != 0))
			default:
				return derTLV(0x82, []byte([]string{"example.com", ".example.com", "a.b", "test"}[r.Intn(4)]))
			}
		}
		subtrees := func() []byte {
			var b []byte
			for n := 1 + r.Intn(3); n > 0; n-- {
				st := gname()
				if r.Intn(6) == 0 {
					st = append(st, derTLV(0x80, []byte{0})...) // minimum [0] 0
				}
				if r.Intn(15) == 0 {
					st = nil // empty GeneralSubtree
				}
				b = append(b, derTLV(0x30, st)...)
			}
			return b
		}
		var body []byte
		if r.Intn(4) != 0 {
			body = append(body, derTLV(0xa0, subtrees())...)
		}
		if r.Intn(3) == 0 {
			body = append(body, derTLV(0xa1, subtrees())...)
		}
		return fmt.Sprintf("E %d ncx %d %s", id, r.Intn(2), hx.Hex(derTLV(0x30, body)))
	case 0:
		var ips [][]byte
		for n := r.Intn(4); n > 0; n-- {
			switch r.Intn(8) {
			case 0:
				ips = append(ips, append([]byte{0, 0, 0, 0, 0, 0, 0, 0, 0, 0, 0xff, 0xff}, r.Bytes(4)...))
			case 1:
				ips = append(ips, r.Bytes(r.Pick([]int{0, 1, 5, 12, 15, 17})))
			case 2, 3, 4:
				ips = append(ips, r.Bytes(16))
			default:
				ips = append(ips, r.Bytes(4))
			}
		}
		d, e := list(r.Intn(4), r.Intn(4) != 0), list(r.Intn(3), r.Intn(4) != 0)
		if d == "-" && e == "-" && len(ips) == 0 {
			d = hx.HexList([][]byte{[]byte("a.b")})
		}
		return fmt.Sprintf("E %d san %s %s %s", id, d, e, hx.HexList(ips))
	case 1:
		var us []int
		for n := r.Intn(5); n > 0; n-- {
			us = append(us, r.Intn(12))
		}
		if r.Intn(25) == 0 {
			us = append(us, 12+r.Intn(3))
		}
		u := oids(r.Intn(4))
		if len(us) == 0 && u == "-" {
			us = []int{1}
		}
		return fmt.Sprintf("E %d eku %s %s", id, hx.Ints(us), u)
	case 2:
		return fmt.Sprintf("E %d pol %s", id, oids(1+r.Intn(4)))
	case 3:
		n := 1 + r.Intn(4)
		var v [][]byte
		for i := 0; i < n; i++ {
			b := genBytesE(r, r.Intn(12) != 0)
			if len(b) == 0 && r.Intn(3) != 0 {
				b = []byte("example.com")
			}
			v = append(v, b)
		}
		return fmt.Sprintf("E %d nc %d %s", id, r.Intn(2), hx.HexList(v))
	case 4:
		b := genBytesE(r, false)
		if len(b) == 0 {
			b = []byte{1}
		}
		return fmt.Sprintf("E %d ski %s", id, hx.Hex(b))
	default:
		b := genBytesE(r, false)
		if len(b) == 0 {
			b = []byte{1}
		}
		return fmt.Sprintf("E %d aki %s", id, hx.Hex(b))
	}
}

// ------------------------------------------------------------------------------------------------
// E tbs cases: the TBSCertList CreateRevocationList / CreateCRL assemble, byte for byte.
//
//	E <id> tbs <mode> <alg> <issuer> <this> <next> <ski> <number> <entries> <extras>
//	   mode rl | crl; alg, issuer, this, next: hex of the DER elements (next "-" = zero time); ski hex;
//	   number decimal (rl only); entries = serial;time-element-hex;exts joined by ","; exts = oid!crit!value-hex joined by "+";
//	   extras: like exts (rl only)
//	-> ok <hex of TBSCertList.Raw>

type tbsExt struct {
	oid  asn1.ObjectIdentifier
	crit bool
	val  []byte
}

func extsStr(v []tbsExt) string {
	if len(v) == 0 {
		return "-"
	}
	p := make([]string, len(v))
	for i, e := range v {
		p[i] = oidsStr([]asn1.ObjectIdentifier{e.oid}) + "!" + b2s(e.crit) + "!" + hx.Hex(e.val)
	}
	return strings.Join(p, "+")
}

func unExts(s string) []pkix.Extension {
	if s == "-" || s == "" {
		return nil
	}
	var out []pkix.Extension
	for _, e := range strings.Split(s, "+") {
		q := strings.Split(e, "!")
		out = append(out, pkix.Extension{Id: unOIDs(q[0])[0], Critical: q[1] == "1", Value: hx.UnHex(q[2])})
	}
	return out
}

func timeOfElem(h string) time.Time {
	var t time.Time
	if h == "-" {
		return t
	}
	if _, err := asn1.Unmarshal(hx.UnHex(h), &t); err != nil {
		panic("bad time element in case line")
	}
	return t
}

func genTBS(r *hx.Rng, id int) string {
	mode := "rl"
	if r.Intn(3) == 0 {
		mode = "crl"
	}
	tmv := func() time.Time {
		y := r.Pick([]int{1950, 1999, 2024, 2049, 2050, 2051, 9999})
		return time.Date(y, time.Month(1+r.Intn(12)), 1+r.Intn(28), r.Intn(24), r.Intn(60), r.Intn(60), 0, time.UTC)
	}
	enc := func(t time.Time) string {
		b, _ := asn1.Marshal(t)
		return hx.Hex(b)
	}
	tm := func() string { return enc(tmv()) }
	gext := func() tbsExt {
		return tbsExt{asn1.ObjectIdentifier{2, 5, 29, 21 + r.Intn(3)}, r.Intn(3) == 0, genBytesE(r, false)}
	}
	alg, _ := asn1.Marshal(pkix.AlgorithmIdentifier{Algorithm: asn1.ObjectIdentifier{1, 2, 156, 10197, 1, 501}})
	name := pkix.Name{CommonName: "crl issuer " + strconv.Itoa(r.Intn(3)), Organization: []string{"verif"}}
	iss, _ := asn1.Marshal(name.ToRDNSequence())
	t1, t2 := tmv(), tmv()
	if t2.Before(t1) { // CreateRevocationList refuses NextUpdate before ThisUpdate (not part of the byte model)
		t1, t2 = t2, t1
	}
	this, next := enc(t1), enc(t2)
	if mode == "crl" && r.Intn(4) == 0 {
		next = "-"
	}
	ski := r.Bytes(1 + r.Intn(20))
	if mode == "crl" && r.Intn(3) == 0 {
		ski = nil
	}
	var entries []string
	for n := r.Pick([]int{0, 0, 1, 2, 3, 5}); n > 0; n-- {
		ser := genSerial(r, 2)
		var xs []tbsExt
		for k := r.Pick([]int{0, 0, 1, 2}); k > 0; k-- {
			xs = append(xs, gext())
		}
		entries = append(entries, ser.String()+";"+tm()+";"+extsStr(xs))
	}
	es := "-"
	if len(entries) > 0 {
		es = strings.Join(entries, ",")
	}
	var extra []tbsExt
	if mode == "rl" {
		for k := r.Pick([]int{0, 0, 1, 2}); k > 0; k-- {
			extra = append(extra, gext())
		}
	}
	num := genSerial(r, 2)
	return fmt.Sprintf("E %d tbs %s %s %s %s %s %s %s %s %s", id, mode, hx.Hex(alg), hx.Hex(iss), this, next, hx.Hex(ski), num.String(), es, extsStr(extra))
}

func runTBS(f []string) string {
	if len(f) != 12 {
		return "BADCASE"
	}
	mode := f[3]
	var rdn pkix.RDNSequence
	if _, err := asn1.Unmarshal(hx.UnHex(f[5]), &rdn); err != nil {
		return "BADCASE"
	}
	var name pkix.Name
	name.FillFromRDNSequence(&rdn)
	issuer := &x509.Certificate{Subject: name, SubjectKeyId: hx.UnHex(f[8]), KeyUsage: x509.KeyUsageCRLSign}
	if len(issuer.SubjectKeyId) == 0 {
		issuer.SubjectKeyId = nil
	}
	var revoked []pkix.RevokedCertificate
	if f[10] != "-" {
		for _, e := range strings.Split(f[10], ",") {
			q := strings.Split(e, ";")
			ser, _ := new(big.Int).SetString(q[0], 10)
			revoked = append(revoked, pkix.RevokedCertificate{SerialNumber: ser, RevocationTime: timeOfElem(q[1]), Extensions: unExts(q[2])})
		}
	}
	var der []byte
	var err error
	if mode == "rl" {
		num, _ := new(big.Int).SetString(f[9], 10)
		der, err = x509.CreateRevocationList(rand.Reader, &x509.RevocationList{SignatureAlgorithm: x509.SM2WithSM3,
			RevokedCertificates: revoked, Number: num, ThisUpdate: timeOfElem(f[6]), NextUpdate: timeOfElem(f[7]),
			ExtraExtensions: unExts(f[11])}, issuer, W.sm2k[0])
	} else {
		der, err = issuer.CreateCRL(rand.Reader, W.sm2k[0], revoked, timeOfElem(f[6]), timeOfElem(f[7]))
	}
	if err != nil {
		return "err create"
	}
	p, err := x509.ParseDERCRL(der)
	if err != nil {
		return "err parse"
	}
	return "ok " + hx.Hex(p.TBSCertList.Raw)
}

// ------------------------------------------------------------------------------------------------
// E tbsc cases: the TBSCertificate CreateCertificate assembles, byte for byte.
//
//	E <id> tbsc <serial> <alg> <issuer> <notBefore> <notAfter> <subject> <x> <y> <ku> <ekus> <unknown> <bc> <ski> <aki> <dns> <emails> <ips> <policies> <critical> <permitted>
//	   serial decimal; alg, issuer, notBefore, notAfter, subject: hex of DER elements; x, y: hex of the subject public key
//	   coordinates; ku decimal; ekus ints; unknown, policies dotted OIDs; bc = valid,isca,maxpathlen,zero; lists as elsewhere
//	-> ok <hex of RawTBSCertificate> | err create | err parse | PANIC

func genTBSC(r *hx.Rng, id int) string {
	tmv := func() time.Time {
		y := r.Pick([]int{1950, 1999, 2024, 2049, 2050, 2051, 9999})
		return time.Date(y, time.Month(1+r.Intn(12)), 1+r.Intn(28), r.Intn(24), r.Intn(60), r.Intn(60), 0, time.UTC)
	}
	enc := func(t time.Time) string {
		b, _ := asn1.Marshal(t)
		return hx.Hex(b)
	}
	alg, _ := asn1.Marshal(pkix.AlgorithmIdentifier{Algorithm: asn1.ObjectIdentifier{1, 2, 156, 10197, 1, 501}})
	nm := func(cn string) string {
		n := pkix.Name{CommonName: cn, Organization: []string{"verif"}}
		b, _ := asn1.Marshal(n.ToRDNSequence())
		return hx.Hex(b)
	}
	d := new(big.Int).SetBytes(r.Bytes(31))
	d.Add(d, big.NewInt(1))
	x, y := sm2.P256Sm2().ScalarBaseMult(d.Bytes())
	opt := func(p int) bool { return r.Intn(p) != 0 }
	ku := 0
	if opt(3) {
		ku = 1 + r.Intn(511)
	}
	var ekus []int
	unknown := "-"
	if opt(2) {
		for n := r.Intn(4); n > 0; n-- {
			ekus = append(ekus, r.Intn(12))
		}
		if r.Intn(3) == 0 {
			unknown = oidsStr([]asn1.ObjectIdentifier{{1, 2, 3, 4, 5 + r.Intn(100)}})
		}
	}
	bc := fmt.Sprintf("%d,%d,%d,%d", r.Intn(2), r.Intn(2), r.Pick([]int{-1, 0, 0, 1, 2, 127, 128, 1 << 20}), r.Intn(2))
	bytesOr := func(p int, n int) string {
		if opt(p) {
			return hx.Hex(r.Bytes(1 + r.Intn(n)))
		}
		return "-"
	}
	list := func(p int, ia5 bool) string {
		if !opt(p) {
			return "-"
		}
		var v [][]byte
		for n := 1 + r.Intn(3); n > 0; n-- {
			b := genBytesE(r, ia5)
			if len(b) == 0 || len(b) > 300 {
				b = []byte("a.example.com")
			}
			v = append(v, b)
		}
		return hx.HexList(v)
	}
	ips := "-"
	if opt(2) {
		var v [][]byte
		for n := 1 + r.Intn(2); n > 0; n-- {
			if r.Bool() {
				v = append(v, r.Bytes(4))
			} else if r.Bool() {
				v = append(v, append([]byte{0, 0, 0, 0, 0, 0, 0, 0, 0, 0, 0xff, 0xff}, r.Bytes(4)...))
			} else {
				v = append(v, r.Bytes(16))
			}
		}
		ips = hx.HexList(v)
	}
	pol := "-"
	if opt(2) {
		pol = oidsStr([]asn1.ObjectIdentifier{{2, 5, 29, 32, 0}, {1, 3, 6, 1, 4, 1, 1 + r.Intn(50000)}}[:1+r.Intn(2)])
	}
	return fmt.Sprintf("E %d tbsc %s %s %s %s %s %s %s %s %d %s %s %s %s %s %s %s %s %s %d %s", id, genSerial(r, 2).String(), hx.Hex(alg),
		nm("issuer "+strconv.Itoa(r.Intn(3))), enc(tmv()), enc(tmv()), nm("subject "+strconv.Itoa(r.Intn(3))),
		hx.Hex(x.Bytes()), hx.Hex(y.Bytes()), ku, hx.Ints(ekus), unknown, bc, bytesOr(2, 20), bytesOr(2, 20),
		list(2, true), list(3, true), ips, pol, r.Intn(2), list(3, true))
}

func nameOfElem(h string) pkix.Name {
	var rdn pkix.RDNSequence
	if _, err := asn1.Unmarshal(hx.UnHex(h), &rdn); err != nil {
		panic("bad name element in case line")
	}
	var n pkix.Name
	n.FillFromRDNSequence(&rdn)
	return n
}

func runTBSC(f []string) string {
	if len(f) != 23 {
		return "BADCASE"
	}
	serial, _ := new(big.Int).SetString(f[3], 10)
	t := &x509.Certificate{SerialNumber: serial, Subject: nameOfElem(f[8]), NotBefore: timeOfElem(f[6]), NotAfter: timeOfElem(f[7]),
		SignatureAlgorithm: x509.SM2WithSM3}
	parent := &x509.Certificate{Subject: nameOfElem(f[5]), SubjectKeyId: hx.UnHex(f[16])}
	if len(parent.SubjectKeyId) == 0 {
		parent.SubjectKeyId = nil
	}
	pub := &sm2.PublicKey{Curve: sm2.P256Sm2(), X: new(big.Int).SetBytes(hx.UnHex(f[9])), Y: new(big.Int).SetBytes(hx.UnHex(f[10]))}
	ku, _ := strconv.Atoi(f[11])
	t.KeyUsage = x509.KeyUsage(ku)
	for _, u := range hx.UnInts(f[12]) {
		t.ExtKeyUsage = append(t.ExtKeyUsage, x509.ExtKeyUsage(u))
	}
	t.UnknownExtKeyUsage = unOIDs(f[13])
	bc := hx.UnInts(f[14])
	t.BasicConstraintsValid, t.IsCA, t.MaxPathLen, t.MaxPathLenZero = bc[0] == 1, bc[1] == 1, bc[2], bc[3] == 1
	t.SubjectKeyId = hx.UnHex(f[15])
	if len(t.SubjectKeyId) == 0 {
		t.SubjectKeyId = nil
	}
	t.DNSNames, t.EmailAddresses = strsOf(hx.UnHexList(f[17])), strsOf(hx.UnHexList(f[18]))
	for _, ip := range hx.UnHexList(f[19]) {
		t.IPAddresses = append(t.IPAddresses, net.IP(ip))
	}
	t.PolicyIdentifiers = unOIDs(f[20])
	t.PermittedDNSDomainsCritical = f[21] == "1"
	t.PermittedDNSDomains = strsOf(hx.UnHexList(f[22]))
	der, err := x509.CreateCertificate(t, parent, pub, W.sm2k[0])
	if err != nil {
		return "err create"
	}
	c, err := x509.ParseCertificate(der)
	if err != nil {
		return "err parse"
	}
	return "ok " + hx.Hex(c.RawTBSCertificate)
}

// ------------------------------------------------------------------------------------------------
// Y cases: HISTORIES.  Fixed SM2 keys whose public coordinates have leading zero bytes (the encodings the
// package pads: ZA, elliptic.Marshal) are used one after the other; each key issues a self-signed CA certificate, a
// certificate for the next key, a request and a CRL; after EVERY issuance all objects issued so far are verified
// again under their issuer (must succeed), after every key's last object also under every other key used so far
// (must fail), and the public key of
// every certificate must parse back to the subject's coordinates.
//
//	Y <id> <scalar>,<scalar>,...      private scalars (64 hex digits), in the order of use
//	-> ok <objects> <checks> <failures>   failures = "-" or step:object:what joined by ","

// scalars whose public point has leading zero bytes (found off line; categories re-checked by yKey)
var yShort = map[string][]string{
	"X31": {"b41e8c2df82af80603a5d04a73f908a86c7f7f3666c87105bec4fa614ef5080f", "0c95056e37e01d702febbb7b001ef32b1e1bc5cc7acf872bd10a77d1297eddfb"},
	"X30": {"60fe767ff9d61cb9f57cb3a28f811ace0c5d8854e3410fe41cb599b369ec9ffe", "ff7832b6d7f5d4b0e9d3407be7d9e07b00d9f28e6aff32cefff37d02df1aebb2"},
	"Y31": {"584c3b540b4eefe4be952585da291a8858a83d6ee515553559b64de5928a942f", "b9b4ff4c51f2f93cdf0ace5c34c03329a2ba87e1b3cc2a69434cc7886c42379c"},
	"Y30": {"60dd169258fd39efdc88673545a84a4a207276a78d46b0bd5b9d836516d46239", "425b7c1a5213d0eb89f7979575187da8adb275f4bab0f9ab271aee5163cf9096"},
	"XY31": {"8274011715a602340ec519a9e7303be20bbf7ebe03379fd9af477bf951f04262", "38aa188f4105c00cf00885da39f3c6da196d67af28e1c7d8b8edd04f1024fc3a"},
	"FULL": {"1f2e3d4c5b6a79881f2e3d4c5b6a79881f2e3d4c5b6a79881f2e3d4c5b6a7988", "00000000000000000000000000000000000000000000000000000000000000a7"},
	"Y29": {"000000000154450000000000000000000000000000000000000000000007d046"},
	"X29": {"000000000b2faf00000000000000000000000000000000000000000000230267"},
}

func yKey(hexd string) *sm2.PrivateKey {
	c := sm2.P256Sm2()
	d, ok := new(big.Int).SetString(hexd, 16)
	if !ok {
		panic("bad scalar in case line")
	}
	k := new(sm2.PrivateKey)
	k.Curve, k.D = c, d
	k.X, k.Y = c.ScalarBaseMult(d.Bytes())
	return k
}

func genY(r *hx.Rng, id, i int) string {
	cats := []string{"X31", "X30", "Y31", "Y30", "XY31", "FULL", "X29", "Y29"}
	// the categories are what the scalars were searched for: re-checked here, a wrong table must not go unnoticed
	for c, l := range yShort {
		for _, sc := range l {
			k := yKey(sc)
			got := fmt.Sprintf("X%dY%d", len(k.X.Bytes()), len(k.Y.Bytes()))
			want := map[string]string{"X31": "X31Y32", "X30": "X30Y32", "Y31": "X32Y31", "Y30": "X32Y30", "XY31": "X31Y31", "FULL": "X32Y32", "X29": "X29Y32", "Y29": "X32Y29"}[c]
			if got != want {
				panic("history key table: " + sc + " is " + got + ", listed as " + c)
			}
		}
	}
	// one key per category, in a seed-rotated order; every second history starts with two-or-more-zero-byte keys so
	// that their objects exist before a one-zero-byte key is handled
	var ks []string
	for _, c := range cats {
		ks = append(ks, yShort[c][r.Intn(len(yShort[c]))])
	}
	for j := len(ks) - 1; j > 0; j-- {
		k := r.Intn(j + 1)
		ks[j], ks[k] = ks[k], ks[j]
	}
	rot := i % len(ks)
	ks = append(ks[rot:], ks[:rot]...)
	return fmt.Sprintf("Y %d %s", id, strings.Join(ks, ","))
}

type yObj struct {
	name   string
	issuer int // index of the issuing key
	check  func(ca *x509.Certificate, key *sm2.PrivateKey) bool
}

func runY(f []string) string {
	scalars := strings.Split(f[2], ",")
	keys := make([]*sm2.PrivateKey, len(scalars))
	cas := make([]*x509.Certificate, len(scalars))
	var objs []yObj
	var fails []string
	checks := 0
	step := 0
	fail := func(o yObj, what string) {
		if len(fails) < 12 {
			fails = append(fails, fmt.Sprintf("step%d:%s:%s", step, o.name, what))
		}
	}
	// under the issuer: after every issuance; under the other keys used so far: once per key (after its last object)
	verifyAll := func(used int, others bool) {
		step++
		for _, o := range objs {
			for k := 0; k <= used; k++ {
				if cas[k] == nil || (k != o.issuer && !others) {
					continue
				}
				checks++
				got := o.check(cas[k], keys[k])
				if k == o.issuer && !got {
					fail(o, fmt.Sprintf("no-longer-verifies-under-issuer-key%d", k))
				}
				if k != o.issuer && got {
					fail(o, fmt.Sprintf("verifies-under-other-key%d", k))
				}
			}
		}
	}
	nb, na := time.Unix(1700000000, 0), time.Unix(1900000000, 0)
	for i, sc := range scalars {
		keys[i] = yKey(sc)
		key := keys[i]
		name := pkix.Name{CommonName: fmt.Sprintf("history key %d", i), Organization: []string{"verif"}}
		// 1. self-signed CA certificate
		t := &x509.Certificate{SerialNumber: big.NewInt(int64(100 + i)), Subject: name, NotBefore: nb, NotAfter: na,
			BasicConstraintsValid: true, IsCA: true, KeyUsage: x509.KeyUsageCertSign | x509.KeyUsageCRLSign,
			SubjectKeyId: []byte{byte(i + 1), 7, 7}, SignatureAlgorithm: x509.SM2WithSM3}
		der, err := x509.CreateCertificate(t, t, &key.PublicKey, key)
		if err != nil {
			return "err create-ca:" + slug(err.Error())
		}
		ca, err := x509.ParseCertificate(der)
		if err != nil {
			return "err parse-ca:" + slug(err.Error())
		}
		cas[i] = ca
		pubOK := func(c *x509.Certificate, want *sm2.PrivateKey) bool {
			p, ok := c.PublicKey.(*ecdsa.PublicKey)
			return ok && p.X.Cmp(want.X) == 0 && p.Y.Cmp(want.Y) == 0
		}
		caCert := ca
		me := i
		objs = append(objs, yObj{fmt.Sprintf("ca%d", i), i, func(by *x509.Certificate, _ *sm2.PrivateKey) bool {
			return caCert.CheckSignatureFrom(by) == nil && by.CheckSignature(caCert.SignatureAlgorithm, caCert.RawTBSCertificate, caCert.Signature) == nil
		}})
		if !pubOK(ca, key) {
			fail(objs[len(objs)-1], "public-key-does-not-parse-back")
		}
		verifyAll(i, false)
		// 2. a certificate for the NEXT key of the history (its coordinates go through elliptic.Marshal)
		next := yKey(scalars[(i+1)%len(scalars)])
		lt := &x509.Certificate{SerialNumber: big.NewInt(int64(200 + i)), Subject: pkix.Name{CommonName: fmt.Sprintf("leaf %d", i)},
			NotBefore: nb, NotAfter: na, DNSNames: []string{"a.example.com"}, SignatureAlgorithm: x509.SM2WithSM3}
		der, err = x509.CreateCertificate(lt, ca, &next.PublicKey, key)
		if err != nil {
			return "err create-cert:" + slug(err.Error())
		}
		leaf, err := x509.ParseCertificate(der)
		if err != nil {
			return "err parse-cert:" + slug(err.Error())
		}
		objs = append(objs, yObj{fmt.Sprintf("cert%d", i), me, func(by *x509.Certificate, _ *sm2.PrivateKey) bool {
			return leaf.CheckSignatureFrom(by) == nil
		}})
		if !pubOK(leaf, next) {
			fail(objs[len(objs)-1], "public-key-does-not-parse-back")
		}
		verifyAll(i, false)
		// 3. a certificate request
		csrDER, err := x509.CreateCertificateRequest(rand.Reader, &x509.CertificateRequest{Subject: name, SignatureAlgorithm: x509.SM2WithSM3}, key)
		if err != nil {
			return "err create-csr:" + slug(err.Error())
		}
		csr, err := x509.ParseCertificateRequest(csrDER)
		if err != nil {
			return "err parse-csr:" + slug(err.Error())
		}
		objs = append(objs, yObj{fmt.Sprintf("csr%d", i), me, func(_ *x509.Certificate, k *sm2.PrivateKey) bool {
			q := *csr
			q.PublicKey = &ecdsa.PublicKey{Curve: sm2.P256Sm2(), X: k.X, Y: k.Y}
			return q.CheckSignature() == nil
		}})
		if p, ok := csr.PublicKey.(*ecdsa.PublicKey); !ok || p.X.Cmp(key.X) != 0 || p.Y.Cmp(key.Y) != 0 {
			fail(objs[len(objs)-1], "public-key-does-not-parse-back")
		}
		verifyAll(i, false)
		// 4. a CRL
		crlDER, err := ca.CreateCRL(rand.Reader, key, []pkix.RevokedCertificate{{SerialNumber: big.NewInt(5), RevocationTime: nb}}, nb, na)
		if err != nil {
			return "err create-crl:" + slug(err.Error())
		}
		crl, err := x509.ParseDERCRL(crlDER)
		if err != nil {
			return "err parse-crl:" + slug(err.Error())
		}
		objs = append(objs, yObj{fmt.Sprintf("crl%d", i), me, func(by *x509.Certificate, _ *sm2.PrivateKey) bool {
			return by.CheckCRLSignature(crl) == nil
		}})
		verifyAll(i, true)
	}
	fs := "-"
	if len(fails) > 0 {
		fs = strings.Join(fails, ",")
	}
	return fmt.Sprintf("ok %d %d %s", len(objs), checks, fs)
}

// ------------------------------------------------------------------------------------------------
// Y cases with an operation list (4 fields): USER-ID HISTORIES on ONE key object.  A single *sm2.PrivateKey (and the
// *sm2.PublicKey inside it) goes through a list of operations: SM2 signatures, digests and verifications with
// application-chosen user ids (GM/T 0009 allows any id; empty = default, the default id spelled out, other ids of 1..40
// octets, a prefix of the default id, the default id plus one octet), a value copy of the key object, and in between the
// issuing of certificates, requests, CRLs and RevocationLists with that same object.  Whatever was done with the key
// object before, (i) every issued object verifies under the issuer's public key (taken from the parsed certificate / a
// fresh public key value, never from the used object), at every later point of the history as well, (ii) a signature
// made with user id u verifies under a fresh public key with u - and, for u not the default id, not with the default id -
// and also through the used key object itself, (iii) Sm3Digest(msg, u) of the used object equals that of a fresh one.
//
//	Y <id> <scalar> <op>,<op>,...     op = s:<uid hex> | d:<uid hex> | v:<uid hex> | S | copy | cert | csr | crl | rl
//	-> ok <objects> <checks> <failures>   failures = "-" or step<k>:<op>:<what> joined by ","

var defaultUID = []byte("1234567812345678")

func isDefaultUID(u []byte) bool { return len(u) == 0 || bytes.Equal(u, defaultUID) }

func genUID(r *hx.Rng, nonDefault bool) []byte {
	for {
		var u []byte
		switch r.Intn(8) {
		case 0:
			u = nil
		case 1:
			u = append([]byte(nil), defaultUID...)
		case 2:
			u = append([]byte(nil), defaultUID[:1+r.Intn(15)]...)
		case 3:
			u = append(append([]byte(nil), defaultUID...), byte(r.Intn(256)))
		case 4:
			u = []byte("alice@example.org")
		default:
			u = r.Bytes(1 + r.Intn(40))
		}
		if !nonDefault || !isDefaultUID(u) {
			return u
		}
	}
}

func genYU(r *hx.Rng, id, i int) string {
	cats := []string{"FULL", "X31", "Y31", "XY31", "X30", "Y30", "X29", "Y29"}
	var scalar string
	if i%3 == 2 {
		d := r.Bytes(32)
		d[0] &= 0x7f
		d[31] |= 1
		scalar = fmt.Sprintf("%x", d)
	} else {
		l := yShort[cats[(i/3)%len(cats)]]
		scalar = l[r.Intn(len(l))]
	}
	uidOp := func(kind string, nonDefault bool) string { return kind + ":" + fmt.Sprintf("%x", genUID(r, nonDefault)) }
	issue := []string{"cert", "csr", "crl", "rl"}
	var ops []string
	// systematic head: one operation with a non-default id of each kind (s, d, v by turns), then one object of each kind
	// by turns; every fourth history issues first (the object must stay valid) and then uses a non-default id
	head := uidOp([]string{"s", "d", "v"}[i%3], true)
	first := issue[(i/3)%4]
	if i%4 == 3 {
		ops = append(ops, first, head, issue[(i/3+1)%4])
	} else {
		ops = append(ops, head, first)
	}
	n := 3 + r.Intn(5)
	for j := 0; j < n; j++ {
		switch r.Intn(9) {
		case 0, 1:
			ops = append(ops, uidOp("s", r.Intn(3) != 0))
		case 2:
			ops = append(ops, uidOp("d", r.Intn(3) != 0))
		case 3:
			ops = append(ops, uidOp("v", r.Intn(3) != 0))
		case 4:
			ops = append(ops, "S")
		case 5:
			ops = append(ops, "copy")
		default:
			ops = append(ops, issue[r.Intn(4)])
		}
	}
	ops = append(ops, issue[r.Intn(4)])
	return fmt.Sprintf("Y %d %s %s", id, scalar, strings.Join(ops, ","))
}

func runYU(f []string) string {
	key := yKey(f[2]) // THE key object of the history
	freshPub := func() *sm2.PublicKey { return &sm2.PublicKey{Curve: sm2.P256Sm2(), X: new(big.Int).Set(key.X), Y: new(big.Int).Set(key.Y)} }
	freshKey := func() *sm2.PrivateKey { return yKey(f[2]) }
	ops := strings.Split(f[3], ",")
	var fails []string
	checks, step := 0, 0
	curOp := ""
	fail := func(what string) {
		if len(fails) < 12 {
			fails = append(fails, fmt.Sprintf("step%d:%s:%s", step, strings.SplitN(curOp, ":", 2)[0], what))
		}
	}
	expect := func(got, want bool, what string) {
		checks++
		if got != want {
			fail(what)
		}
	}
	type obj struct {
		name  string
		check func(ca *x509.Certificate) bool
	}
	var objs []obj
	nb, na := time.Unix(1700000000, 0), time.Unix(1900000000, 0)
	name := pkix.Name{CommonName: "uid history key", Organization: []string{"verif"}}
	// the issuer certificate every verification goes through: issued by a FRESH key object for the same scalar and
	// parsed, so that it does not depend on anything the history does
	t0 := &x509.Certificate{SerialNumber: big.NewInt(99), Subject: name, NotBefore: nb, NotAfter: na, BasicConstraintsValid: true, IsCA: true,
		KeyUsage: x509.KeyUsageCertSign | x509.KeyUsageCRLSign, SubjectKeyId: []byte{9, 7, 7}, SignatureAlgorithm: x509.SM2WithSM3}
	fk := freshKey()
	der0, err := x509.CreateCertificate(t0, t0, &fk.PublicKey, fk)
	if err != nil {
		return "err create-ref-ca:" + slug(err.Error())
	}
	refCA, err := x509.ParseCertificate(der0)
	if err != nil {
		return "err parse-ref-ca:" + slug(err.Error())
	}
	if refCA.CheckSignatureFrom(refCA) != nil {
		return "err ref-ca-does-not-verify"
	}
	algos := []x509.SignatureAlgorithm{x509.SM2WithSM3, 0, x509.SM2WithSM3, x509.SM2WithSHA256}
	for k, op := range ops {
		step, curOp = k+1, op
		msg := []byte(fmt.Sprintf("message %d of the history of %s", k, f[1]))
		var uid []byte
		if len(op) > 2 && op[1] == ':' {
			uid = unhexOr(op[2:])
		}
		switch {
		case strings.HasPrefix(op, "s:"):
			r, s, err := sm2.Sm2Sign(key, msg, uid, rand.Reader)
			if err != nil {
				return "err sm2sign:" + slug(err.Error())
			}
			expect(sm2.Sm2Verify(freshPub(), msg, uid, r, s), true, "signature-does-not-verify-with-its-uid-under-fresh-public-key")
			expect(sm2.Sm2Verify(&key.PublicKey, msg, uid, r, s), true, "signature-does-not-verify-with-its-uid-through-the-used-key-object")
			expect(sm2.Sm2Verify(freshPub(), msg, nil, r, s), isDefaultUID(uid), "signature-verification-with-default-uid-wrong")
		case strings.HasPrefix(op, "d:"):
			a, e1 := key.Sm3Digest(msg, uid)
			b, e2 := freshPub().Sm3Digest(msg, uid)
			expect(e1 == nil && e2 == nil && bytes.Equal(a, b), true, "Sm3Digest-of-used-key-object-differs-from-fresh-key")
		case strings.HasPrefix(op, "v:"):
			r, s, err := sm2.Sm2Sign(freshKey(), msg, uid, rand.Reader)
			if err != nil {
				return "err sm2sign:" + slug(err.Error())
			}
			expect(sm2.Sm2Verify(&key.PublicKey, msg, uid, r, s), true, "valid-signature-rejected-through-the-used-key-object")
			expect(sm2.Sm2Verify(&key.PublicKey, msg, nil, r, s), isDefaultUID(uid), "verification-with-default-uid-through-the-used-key-object-wrong")
		case op == "S":
			sig, err := key.Sign(rand.Reader, msg, nil)
			if err != nil {
				return "err sign:" + slug(err.Error())
			}
			expect(freshPub().Verify(msg, sig), true, "default-uid-signature-does-not-verify-under-fresh-public-key")
			expect(key.PublicKey.Verify(msg, sig), true, "default-uid-signature-does-not-verify-through-the-used-key-object")
		case op == "copy":
			c := *key
			key = &c
		case op == "cert":
			lt := &x509.Certificate{SerialNumber: big.NewInt(int64(300 + k)), Subject: pkix.Name{CommonName: fmt.Sprintf("leaf %d", k)},
				NotBefore: nb, NotAfter: na, DNSNames: []string{"a.example.com"}, SignatureAlgorithm: algos[k%4]}
			sub := yKey(yShort["FULL"][0])
			der, err := x509.CreateCertificate(lt, refCA, &sub.PublicKey, key)
			if err != nil {
				return "err create-cert:" + slug(err.Error())
			}
			c, err := x509.ParseCertificate(der)
			if err != nil {
				return "err parse-cert:" + slug(err.Error())
			}
			objs = append(objs, obj{fmt.Sprintf("cert@%d", k+1), func(by *x509.Certificate) bool { return c.CheckSignatureFrom(by) == nil }})
		case op == "csr":
			d, err := x509.CreateCertificateRequest(rand.Reader, &x509.CertificateRequest{Subject: name, SignatureAlgorithm: algos[k%4]}, key)
			if err != nil {
				return "err create-csr:" + slug(err.Error())
			}
			q, err := x509.ParseCertificateRequest(d)
			if err != nil {
				return "err parse-csr:" + slug(err.Error())
			}
			objs = append(objs, obj{fmt.Sprintf("csr@%d", k+1), func(by *x509.Certificate) bool {
				p, ok := q.PublicKey.(*ecdsa.PublicKey)
				w, ok2 := by.PublicKey.(*ecdsa.PublicKey)
				return ok && ok2 && p.X.Cmp(w.X) == 0 && p.Y.Cmp(w.Y) == 0 && q.CheckSignature() == nil
			}})
		case op == "crl":
			d, err := refCA.CreateCRL(rand.Reader, key, []pkix.RevokedCertificate{{SerialNumber: big.NewInt(5), RevocationTime: nb}}, nb, na)
			if err != nil {
				return "err create-crl:" + slug(err.Error())
			}
			l, err := x509.ParseDERCRL(d)
			if err != nil {
				return "err parse-crl:" + slug(err.Error())
			}
			objs = append(objs, obj{fmt.Sprintf("crl@%d", k+1), func(by *x509.Certificate) bool { return by.CheckCRLSignature(l) == nil }})
		case op == "rl":
			d, err := x509.CreateRevocationList(rand.Reader, &x509.RevocationList{Number: big.NewInt(int64(k + 1)), ThisUpdate: nb, NextUpdate: na,
				SignatureAlgorithm: algos[k%4]}, refCA, key)
			if err != nil {
				return "err create-rl:" + slug(err.Error())
			}
			l, err := x509.ParseDERCRL(d)
			if err != nil {
				return "err parse-rl:" + slug(err.Error())
			}
			objs = append(objs, obj{fmt.Sprintf("rl@%d", k+1), func(by *x509.Certificate) bool { return by.CheckCRLSignature(l) == nil }})
		default:
			return "err bad-op:" + slug(op)
		}
		// after EVERY operation: all objects issued so far verify under the issuer's public key
		for _, o := range objs {
			checks++
			if !o.check(refCA) {
				if len(fails) < 12 {
					fails = append(fails, fmt.Sprintf("step%d:%s:does-not-verify-under-issuer-key-after-%s", step, o.name, strings.SplitN(curOp, ":", 2)[0]))
				}
			}
		}
	}
	fs := "-"
	if len(fails) > 0 {
		fs = strings.Join(fails, ",")
	}
	return fmt.Sprintf("ok %d %d %s", len(objs), checks, fs)
}

func unhexOr(s string) []byte {
	b := make([]byte, len(s)/2)
	for i := range b {
		v, err := strconv.ParseUint(s[2*i:2*i+2], 16, 8)
		if err != nil {
			panic("bad hex in case line")
		}
		b[i] = byte(v)
	}
	return b
}

// ------------------------------------------------------------------------------------------------
// Q cases with six fields: BUNDLES.  Several issued certificates are concatenated (as in a PKCS#7 / PKCS#12 certificate bag)
// and read back through ParseCertificates; every certificate of the bundle must come back with the field values of ITS OWN
// template (the same field-by-field comparison as in T cases), whatever stands before or after it, and equal to what
// ParseCertificate gives for the same bytes.  Element kinds: r = random template of genCert (extensions of every kind),
// b = self-signed from a template that uses NO optional field (no extension at all), n = the same under a parent that has no
// SubjectKeyId (so no AuthorityKeyId either), k = KeyUsage only, under such a parent.
//
//	Q <id> bundle <signer> <algo> <kind>:<tseed>,<kind>:<tseed>,...
//	-> ok <certificates> <checks> <failures>   failures = "-" or cert<i><kind>:<what>:<fields> joined by ","

func bundleSpec(kind string, tseed uint64, signer string) *certSpec {
	s := genCert(tseed, signer)
	if kind == "r" {
		return s
	}
	t := &certSpec{kuOverride: -1, serial: s.serial, subj: s.subj, nb: s.nb, na: s.na, subjKey: 2, maxPath: 0}
	switch kind {
	case "b":
		t.selfSigned = true
	case "k":
		t.ku = 1 + int(tseed%0x1ff)
	}
	return t
}

func certDiffFields(a, b *x509.Certificate) []string {
	var d []string
	va, vb := reflect.ValueOf(*a), reflect.ValueOf(*b)
	for i := 0; i < va.NumField(); i++ {
		if !reflect.DeepEqual(va.Field(i).Interface(), vb.Field(i).Interface()) {
			d = append(d, va.Type().Field(i).Name)
		}
	}
	return d
}

func genBundle(r *hx.Rng, id, i int, clean func(kind, signer string) uint64) string {
	signer := []string{"sm2", "sm2", "p256"}[i%3]
	algo := 0
	if signer == "sm2" && i%2 == 0 {
		algo = 16
	}
	// systematic shapes first (with-extensions then without, and the reverse; bare ones only; three and more), then random ones
	shapes := [][]string{{"r", "b"}, {"b", "r"}, {"r", "n"}, {"n", "r"}, {"k", "b"}, {"b", "k"}, {"b", "n"}, {"r", "b", "r", "n"}, {"r", "r", "b"}, {"b"}, {"n", "b", "k", "r", "b"}, {"r", "k", "n"}}
	var sh []string
	if i < len(shapes) {
		sh = shapes[i]
	} else {
		n := 2 + r.Intn(5)
		for j := 0; j < n; j++ {
			sh = append(sh, []string{"r", "r", "b", "n", "k"}[r.Intn(5)])
		}
	}
	var el []string
	for _, k := range sh {
		t := clean("cert", signer)
		if k == "r" { // an element meant to HAVE extensions: a template of the richer kinds
			for genCert(t, signer).rich == 0 {
				t = clean("cert", signer)
			}
		}
		el = append(el, fmt.Sprintf("%s:%d", k, t))
	}
	return fmt.Sprintf("Q %d bundle %s %d %s", id, signer, algo, strings.Join(el, ","))
}

func runBundle(f []string) string {
	signer := f[3]
	algo, _ := strconv.Atoi(f[4])
	if e := W.err[signer]; e != "" {
		return "err " + e
	}
	key := signerOf(signer)
	issA := W.iss[signer][0]
	noKid := *issA // a parent without SubjectKeyId: what it issues has no AuthorityKeyId
	noKid.SubjectKeyId = nil
	type el struct {
		kind   string
		spec   *certSpec
		der    []byte
		single *x509.Certificate
		issuer *x509.Certificate
		subj   *sm2.PublicKey
	}
	var els []el
	var bundle []byte
	for _, e := range strings.Split(f[5], ",") {
		kv := strings.SplitN(e, ":", 2)
		if len(kv) != 2 {
			return "err bad-element"
		}
		tseed, _ := strconv.ParseUint(kv[1], 10, 64)
		s := bundleSpec(kv[0], tseed, signer)
		subj := &W.sm2k[s.subjKey].PublicKey
		tmpl := s.template(algo)
		parent := issA
		if kv[0] == "n" || kv[0] == "k" {
			parent = &noKid
		}
		if s.selfSigned {
			parent, subj = tmpl, &W.sm2k[0].PublicKey
		}
		der, err := x509.CreateCertificate(tmpl, parent, subj, key)
		if err != nil {
			return "err create:" + kv[0] + ":" + slug(err.Error())
		}
		p, err := x509.ParseCertificate(der)
		if err != nil {
			return "err parse:" + kv[0] + ":" + slug(err.Error())
		}
		issuer := parent
		if s.selfSigned {
			issuer = p
		}
		els = append(els, el{kv[0], s, der, p, issuer, subj})
		bundle = append(bundle, der...)
	}
	certs, err := x509.ParseCertificates(bundle)
	if err != nil {
		return "err parse-bundle:" + slug(err.Error())
	}
	var fails []string
	checks := 1
	fail := func(i int, what string, d []string) {
		if len(fails) < 12 {
			if len(d) > 6 {
				d = append(d[:6:6], "more")
			}
			fails = append(fails, fmt.Sprintf("cert%d%s:%s:%s", i, els[i].kind, what, strings.Join(d, "+")))
		}
	}
	if len(certs) != len(els) {
		return fmt.Sprintf("ok %d %d bundle-has-%d-certificates", len(els), checks, len(certs))
	}
	for i, e := range els {
		checks += 4
		if d := e.spec.compare(e.single, e.issuer, signer, algo, e.subj); len(d) > 0 {
			fail(i, "ParseCertificate-differs-from-template", d)
		}
		if d := e.spec.compare(certs[i], e.issuer, signer, algo, e.subj); len(d) > 0 {
			fail(i, "ParseCertificates-differs-from-template", d)
		}
		if !bytes.Equal(certs[i].Raw, e.der) {
			fail(i, "ParseCertificates-raw-bytes-differ", nil)
		} else if d := certDiffFields(e.single, certs[i]); len(d) > 0 {
			fail(i, "ParseCertificates-differs-from-ParseCertificate", d)
		}
		// the bare kinds carry no extension at all
		if e.kind == "b" || e.kind == "n" {
			if len(certs[i].Extensions) != 0 || len(e.single.Extensions) != 0 {
				fail(i, "extension-less-template-came-back-with-extensions", nil)
			}
		}
		// issA holds the public key of the signer of every element (also of the self-signed ones)
		if issA.CheckSignature(certs[i].SignatureAlgorithm, certs[i].RawTBSCertificate, certs[i].Signature) != nil {
			fail(i, "certificate-from-bundle-does-not-verify-under-issuer", nil)
		}
	}
	fs := "-"
	if len(fails) > 0 {
		fs = strings.Join(fails, ",")
	}
	return fmt.Sprintf("ok %d %d %s", len(els), checks, fs)
}

// ------------------------------------------------------------------------------------------------
// P cases: signers LOADED from a key file.  The PKCS#8 / ECPrivateKey bytes are built by hand (not by the package's own
// Marshal functions, which only write minimal-length scalars): the private scalar sits in an OCTET STRING of 30..34
// octets (leading zero octets stripped or added - 33 octets is what BigInteger-based encoders write when the top bit
// is set).  The loaded key issues a self-signed certificate, a request and a CRL; every object must verify under the
// TRUE public point [d]G (the check module computes [d]G itself), and the certificate must carry that point.
//
//	P <id> <scalar, 64 hex digits> <octets> <loader pem|pkcs8|sm2> <with public key 0|1>
//	-> ok <loaded X> <loaded Y> <loaded D> <true X> <true Y> <cert ok><csr ok><crl ok> <cert DER>   | err load:<reason>

var (
	derOIDecPublicKey = []byte{0x06, 0x07, 0x2a, 0x86, 0x48, 0xce, 0x3d, 0x02, 0x01}       // 1.2.840.10045.2.1
	derOIDsm2Curve    = []byte{0x06, 0x08, 0x2a, 0x81, 0x1c, 0xcf, 0x55, 0x01, 0x82, 0x2d} // 1.2.156.10197.1.301
)

func genP(r *hx.Rng, id, i int) string {
	d := r.Bytes(32)
	octets := []int{32, 33, 34, 33, 32, 31, 30, 33}[i%8]
	switch octets {
	case 31:
		d[0] = 0
		d[1] |= 0x80
	case 30:
		d[0], d[1] = 0, 0
		d[2] |= 1
	default:
		switch r.Intn(3) {
		case 0:
			d[0] |= 0x80 // top bit set: the case in which a signed-integer encoder adds a zero octet
			if d[0] == 0xff {
				d[0] = 0xfe // stay below the group order (which starts with fffffffe)
			}
		case 1:
			d[0] &= 0x7f
			d[0] |= 1
		default:
			if d[0] == 0xff {
				d[0] = 0x3c
			}
		}
	}
	loader := []string{"pkcs8", "pem", "sm2"}[(i/8)%3]
	return fmt.Sprintf("P %d %s %d %s %d", id, hx.Hex(d), octets, loader, r.Intn(2))
}

func runP(f []string) string {
	db := hx.UnHex(f[2])
	octets, _ := strconv.Atoi(f[3])
	if len(db) != 32 || octets < 1 || octets > 40 {
		return "BADCASE"
	}
	curve := sm2.P256Sm2()
	tx, ty := curve.ScalarBaseMult(db)
	var sc []byte
	if octets >= 32 {
		sc = append(make([]byte, octets-32), db...)
	} else {
		for _, b := range db[:32-octets] {
			if b != 0 {
				return "BADCASE"
			}
		}
		sc = db[32-octets:]
	}
	body := append(derTLV(2, []byte{1}), derTLV(4, sc)...)
	body = append(body, derTLV(0xa0, derOIDsm2Curve)...)
	if f[5] == "1" {
		body = append(body, derTLV(0xa1, derTLV(3, append([]byte{0}, elliptic.Marshal(curve, tx, ty)...)))...)
	}
	ecpriv := derTLV(0x30, body)
	p8 := append(derTLV(2, []byte{0}), derTLV(0x30, append(append([]byte{}, derOIDecPublicKey...), derOIDsm2Curve...))...)
	p8 = derTLV(0x30, append(p8, derTLV(4, ecpriv)...))
	var key *sm2.PrivateKey
	var err error
	switch f[4] {
	case "sm2":
		key, err = x509.ParseSm2PrivateKey(ecpriv)
	case "pkcs8":
		key, err = x509.ParsePKCS8UnecryptedPrivateKey(p8)
	case "pem":
		key, err = x509.ReadPrivateKeyFromPem(pem.EncodeToMemory(&pem.Block{Type: "PRIVATE KEY", Bytes: p8}), nil)
	default:
		return "BADCASE"
	}
	if err != nil || key == nil || key.D == nil || key.X == nil || key.Y == nil {
		return "err load:" + slug(fmt.Sprint(err))
	}
	// the holder of the true public key: only PublicKey / PublicKeyAlgorithm are read by the checks
	truth := &x509.Certificate{PublicKeyAlgorithm: x509.ECDSA, PublicKey: &ecdsa.PublicKey{Curve: curve, X: tx, Y: ty}}
	name := pkix.Name{CommonName: "loaded signer " + f[1], Organization: []string{"verif"}}
	t := &x509.Certificate{SerialNumber: big.NewInt(77), Subject: name, NotBefore: time.Unix(1700000000, 0), NotAfter: time.Unix(1900000000, 0),
		BasicConstraintsValid: true, IsCA: true, KeyUsage: x509.KeyUsageCertSign | x509.KeyUsageCRLSign, SignatureAlgorithm: x509.SM2WithSM3}
	der, err := x509.CreateCertificate(t, t, &key.PublicKey, key)
	if err != nil {
		return "err create-cert:" + slug(err.Error())
	}
	ca, err := x509.ParseCertificate(der)
	if err != nil {
		return "err parse-cert:" + slug(err.Error())
	}
	okCert := truth.CheckSignature(ca.SignatureAlgorithm, ca.RawTBSCertificate, ca.Signature) == nil
	csrDER, err := x509.CreateCertificateRequest(rand.Reader, &x509.CertificateRequest{Subject: name, SignatureAlgorithm: x509.SM2WithSM3}, key)
	if err != nil {
		return "err create-csr:" + slug(err.Error())
	}
	csr, err := x509.ParseCertificateRequest(csrDER)
	if err != nil {
		return "err parse-csr:" + slug(err.Error())
	}
	q := *csr
	q.PublicKey = truth.PublicKey
	okCSR := q.CheckSignature() == nil
	crlDER, err := ca.CreateCRL(rand.Reader, key, nil, time.Unix(1700000000, 0), time.Unix(1800000000, 0))
	if err != nil {
		return "err create-crl:" + slug(err.Error())
	}
	crl, err := x509.ParseDERCRL(crlDER)
	if err != nil {
		return "err parse-crl:" + slug(err.Error())
	}
	okCRL := truth.CheckCRLSignature(crl) == nil
	return fmt.Sprintf("ok %064x %064x %064x %064x %064x %s%s%s %s", key.X, key.Y, key.D, tx, ty, b2s(okCert), b2s(okCSR), b2s(okCRL), hx.Hex(der))
}

// ------------------------------------------------------------------------------------------------
// Q cases: the issuer name of a certificate issued under a PARSED parent.  The CA certificate is created with a given
// subject encoding (RawSubject of its template), goes through ParseCertificate, and issues a certificate: the issuer field
// of the child must be the subject of the parent BYTE FOR BYTE (names are compared as bytes when chains are built), and
// Verify must build child -> parent.  The subjects include ones pkix.Name cannot regenerate: attributes given through
// ExtraNames, unknown attribute types, another attribute order, other string types.
//
//	Q <id> <variant> <subject DER, hex> <parent p (parsed) | m (in memory, RawSubject set)>
//	-> ok <child DER> <CA DER> <Verify: 1 | 0:reason> <CheckSignatureFrom 0|1>

func derStr(tag byte, s string) []byte { return derTLV(tag, []byte(s)) }

func derAttr(oid asn1.ObjectIdentifier, val []byte) []byte {
	o, err := asn1.Marshal(oid)
	if err != nil {
		panic(err)
	}
	return derTLV(0x31, derTLV(0x30, append(o, val...)))
}

func genQ(r *hx.Rng, id, i int) string {
	variants := []string{"extranames", "extracountry", "unknowntype", "order", "utf8", "ia5", "multi", "plain", "teletex"}
	v := variants[i%len(variants)]
	w := func() string { return genLabel(r) }
	var raw []byte
	fromName := func(n pkix.Name) []byte {
		b, err := asn1.Marshal(n.ToRDNSequence())
		if err != nil {
			panic(err)
		}
		return b
	}
	oidCN, oidO, oidC := asn1.ObjectIdentifier{2, 5, 4, 3}, asn1.ObjectIdentifier{2, 5, 4, 10}, asn1.ObjectIdentifier{2, 5, 4, 6}
	switch v {
	case "extranames":
		raw = fromName(pkix.Name{Organization: []string{w()}, CommonName: w(), ExtraNames: []pkix.AttributeTypeAndValue{
			{Type: asn1.ObjectIdentifier{2, 5, 4, 42}, Value: w()},
			{Type: asn1.ObjectIdentifier{0, 9, 2342, 19200300, 100, 1, 25}, Value: w()}}})
	case "extracountry":
		raw = fromName(pkix.Name{Country: []string{"CN"}, CommonName: w(), ExtraNames: []pkix.AttributeTypeAndValue{{Type: oidC, Value: "DE"}}})
	case "unknowntype":
		raw = fromName(pkix.Name{CommonName: w(), ExtraNames: []pkix.AttributeTypeAndValue{{Type: asn1.ObjectIdentifier{1, 2, 3, 4, r.Intn(1000)}, Value: w()}}})
	case "order": // CN first, then O, then C
		raw = derTLV(0x30, append(append(derAttr(oidCN, derStr(0x13, w())), derAttr(oidO, derStr(0x13, w()))...), derAttr(oidC, derStr(0x13, "CN"))...))
	case "utf8": // an ASCII value as UTF8String (the package would write PrintableString)
		raw = derTLV(0x30, append(derAttr(oidO, derStr(0x0c, w())), derAttr(oidCN, derStr(0x0c, w()))...))
	case "ia5":
		raw = derTLV(0x30, append(derAttr(oidO, derStr(0x13, w())), derAttr(oidCN, derStr(0x16, w()))...))
	case "teletex":
		raw = derTLV(0x30, append(derAttr(oidO, derStr(0x14, w())), derAttr(oidCN, derStr(0x13, w()))...))
	case "multi":
		raw = fromName(pkix.Name{Organization: []string{w(), w()}, OrganizationalUnit: []string{w()}, CommonName: w()})
	default:
		raw = fromName(pkix.Name{Country: []string{"CN"}, Organization: []string{w()}, CommonName: w()})
	}
	return fmt.Sprintf("Q %d %s %s %s", id, v, hx.Hex(raw), []string{"p", "p", "m"}[(i/len(variants))%3])
}

func genLabel(r *hx.Rng) string {
	n := 3 + r.Intn(10)
	b := make([]byte, n)
	for i := range b {
		b[i] = "abcdefghijklmnopqrstuvwxyz0123456789 "[r.Intn(37)]
	}
	b[0], b[n-1] = 'q', 'z'
	return string(b)
}

func runQ(f []string) string {
	raw := hx.UnHex(f[3])
	if len(raw) == 0 {
		return "BADCASE"
	}
	caKey := W.sm2k[0]
	ski := []byte{9, 9, 1}
	ct := &x509.Certificate{SerialNumber: big.NewInt(3), RawSubject: raw, NotBefore: time.Unix(1700000000, 0), NotAfter: time.Unix(1900000000, 0),
		BasicConstraintsValid: true, IsCA: true, KeyUsage: x509.KeyUsageCertSign, SubjectKeyId: ski, SignatureAlgorithm: x509.SM2WithSM3}
	// the CA certificate is issued by a stub that has only the raw name (this call is not the one under observation)
	caDER, err := x509.CreateCertificate(ct, &x509.Certificate{RawSubject: raw, SubjectKeyId: ski}, &caKey.PublicKey, caKey)
	if err != nil {
		return "err create-ca:" + slug(err.Error())
	}
	ca, err := x509.ParseCertificate(caDER)
	if err != nil {
		return "err parse-ca:" + slug(err.Error())
	}
	parent := ca
	if f[4] == "m" {
		parent = &x509.Certificate{RawSubject: raw, SubjectKeyId: ski}
	}
	lt := &x509.Certificate{SerialNumber: big.NewInt(4), Subject: pkix.Name{CommonName: "child " + f[1]}, NotBefore: time.Unix(1700000000, 0),
		NotAfter: time.Unix(1900000000, 0), DNSNames: []string{"q.example.com"}, ExtKeyUsage: []x509.ExtKeyUsage{x509.ExtKeyUsageServerAuth},
		SignatureAlgorithm: x509.SM2WithSM3}
	der, err := x509.CreateCertificate(lt, parent, &W.sm2k[2].PublicKey, caKey)
	if err != nil {
		return "err create-child:" + slug(err.Error())
	}
	child, err := x509.ParseCertificate(der)
	if err != nil {
		return "err parse-child:" + slug(err.Error())
	}
	roots := x509.NewCertPool()
	roots.AddCert(ca)
	ver := "1"
	chains, err := child.Verify(x509.VerifyOptions{Roots: roots, CurrentTime: time.Unix(1800000000, 0), DNSName: "q.example.com"})
	if err != nil {
		ver = "0:" + slug(err.Error())
	} else if len(chains) != 1 || len(chains[0]) != 2 {
		ver = "0:chains"
	}
	return fmt.Sprintf("ok %s %s %s %s", hx.Hex(der), hx.Hex(caDER), ver, b2s(child.CheckSignatureFrom(ca) == nil))
}
