// White-box correspondence driver for C04: the internal state of the SM3 object (digest, bit-length
// counter, unprocessed tail) is set through the hooks of /repo/sm3/verif_state_verif.go (build tag
// verif), then a short Write and Sum(nil) are observed, so that the wrap-around of the uint64
// counter and lengths beyond 2^32 bits are reached without gigabyte inputs.
//
//	c04w gen  <seed> <tier> <cases-out> <obs-out>
//	c04w run  <cases-in> <obs-out>
//
// Case line:   X id <8 digest words, hex, comma separated> <length in bits, hex> <tail hex> <write hex>
// Observation: id ok <digest returned by Sum(nil)> <length counter afterwards, hex> <tail afterwards>
// Case line:   F id secret label seed n    gmtls's GMSSL PRF, prf12(sm3.New), through the hook gmtls.VerifPrfSM3
// Observation: id ok <n bytes>
// Case line:   C id key recs                gmtls's record MAC of the SM3 suites (macSM3 / tls10MAC.MAC) on ONE object for all
//
//	records; recs = seq:header:data:extra,... (extra "~" = nil)
//
// Observation: id ok <mac,...>
// Case line:   A id ops      history (W:<hex> | S:<kind>:<hex> | R, as in c04) on sm3.New(); every Write
//
//	is made from ONE caller buffer that is reused and scribbled over
//
// Observation: id ok <per op: w<n>/<1 if the object's tail buffer overlaps the caller's buffer after the
//
//	call> | s<hex>/<prefix kept> | r>
package main

import (
	"encoding/hex"
	"fmt"
	"os"
	"strconv"
	"strings"
	"time"

	"github.com/tjfoc/gmsm/gmtls"
	"github.com/tjfoc/gmsm/sm3"
	"verifharness/internal/hx"
)

func hexOrDot(b []byte) string {
	if len(b) == 0 {
		return "."
	}
	return hex.EncodeToString(b)
}
func unHexDot(s string) []byte {
	if s == "." || s == "-" || s == "" {
		return []byte{}
	}
	return hx.UnHex(s)
}

func runCase(line string) string {
	f := strings.Split(line, " ")
	id := f[1]
	res, _ := hx.Guard(60*time.Second, func() string {
		if f[0] == "A" {
			return runAlias(f[2])
		}
		if f[0] == "F" {
			n, _ := strconv.Atoi(f[5])
			return "ok " + hx.Hex(gmtls.VerifPrfSM3(n, unHexDot(f[2]), unHexDot(f[3]), unHexDot(f[4])))
		}
		if f[0] == "C" {
			m := gmtls.VerifNewMacSM3(unHexDot(f[2]))
			var outs []string
			for _, rec := range strings.Split(f[3], ",") {
				p := strings.Split(rec, ":")
				var extra []byte
				if p[3] != "~" {
					extra = unHexDot(p[3])
				}
				outs = append(outs, hex.EncodeToString(m.MAC(unHexDot(p[0]), unHexDot(p[1]), unHexDot(p[2]), extra)))
			}
			return "ok " + strings.Join(outs, ",")
		}
		if f[0] != "X" {
			return "BADCASE"
		}
		var dg [8]uint32
		for i, w := range strings.Split(f[2], ",") {
			v, err := strconv.ParseUint(w, 16, 32)
			if err != nil || i >= 8 {
				return "BADCASE"
			}
			dg[i] = uint32(v)
		}
		length, err := strconv.ParseUint(f[3], 16, 64)
		if err != nil {
			return "BADCASE"
		}
		h := sm3.New()
		sm3.VerifSetState(h, dg, length, unHexDot(f[4]))
		h.Write(unHexDot(f[5]))
		d := h.Sum(nil)
		_, l2, t2 := sm3.VerifGetState(h)
		return fmt.Sprintf("ok %s %x %s", hex.EncodeToString(d), l2, hx.Hex(t2))
	})
	return id + " " + res
}

func runAlias(ops string) string {
	h := sm3.New()
	shared := make([]byte, 0, 16384) // the caller's one buffer
	var outs []string
	for _, o := range strings.Split(ops, ",") {
		f := strings.Split(o, ":")
		switch f[0] {
		case "W":
			buf := append(shared[:0], unHexDot(f[1])...)
			n, _ := h.Write(buf)
			ov := 0
			if sm3.VerifTailOverlaps(h, shared) {
				ov = 1
			}
			for i := range buf {
				buf[i] ^= 0xa5
			}
			outs = append(outs, fmt.Sprintf("w%d/%d", n, ov))
		case "S":
			orig := unHexDot(f[2])
			var in []byte
			switch f[1] {
			case "n":
				in = nil
			case "e":
				in = make([]byte, 0, 64)
			case "x":
				in = append(make([]byte, 0, len(orig)), orig...)
			case "c":
				in = append(make([]byte, 0, 64), orig...)
			}
			res := h.Sum(in)
			kept := 0
			if string(in) == string(orig) {
				kept = 1
			}
			outs = append(outs, "s"+hex.EncodeToString(res)+"/"+strconv.Itoa(kept))
			for i := range res { // the caller owns the result and may overwrite it
				res[i] = 0xee
			}
		case "R":
			h.Reset()
			outs = append(outs, "r")
		default:
			return "BADCASE"
		}
	}
	return "ok " + strings.Join(outs, ",")
}

var aliasLens = []int{0, 1, 55, 56, 57, 63, 64, 65, 119, 120, 127, 128, 129, 192, 1000}

func genAliasOps(r *hx.Rng, maxOps int) string {
	n := 2 + r.Intn(maxOps-1)
	ops := make([]string, 0, n+1)
	for i := 0; i < n; i++ {
		switch k := r.Intn(10); {
		case k < 6:
			ops = append(ops, "W:"+hexOrDot(r.Bytes(r.Pick(aliasLens))))
		case k < 9:
			ops = append(ops, []string{"S:n:.", "S:e:.", "S:x:" + hexOrDot(r.Bytes(3)), "S:c:" + hexOrDot(r.Bytes(3))}[r.Intn(4)])
		default:
			ops = append(ops, "R")
		}
	}
	return strings.Join(append(ops, "S:n:."), ",")
}

var iv = [8]uint32{0x7380166f, 0x4914b2b9, 0x172442d7, 0xda8a0600, 0xa96f30bc, 0x163138aa, 0xe38dee4d, 0xb0fb0e4e}

func gen(seed uint64, tier string, o *hx.Out) {
	r := hx.NewRng(seed ^ 0xc04)
	id := 0
	// bit lengths around the places where a narrower or signed counter would go wrong
	bases := []uint64{0, 1<<32 - 8, 1<<32 - 512, 1 << 32, 1<<35 - 8, 1 << 56, 1<<56 - 8, 1<<61 - 64, 1<<61 - 8, 1 << 61,
		1<<63 - 8, 1 << 63, 1<<64 - 8, 1<<64 - 64, 1<<64 - 512, 1<<64 - 1024}
	wlens := []int{0, 1, 2, 8, 55, 56, 63, 64, 65, 128}
	reps := 1
	if tier == "thorough" {
		reps = 8
	}
	nA, maxOps := 120, 8
	if tier == "thorough" {
		nA, maxOps = 1000, 24
	}
	for i := 0; i < nA; i++ {
		id++
		line := fmt.Sprintf("A %d %s", id, genAliasOps(r, maxOps))
		o.Case(line)
		o.Obs(runCase(line))
	}
	// gmtls: PRF output lengths around multiples of 32 and the lengths gmtls asks for (12, 48, 2*(32+16+16))
	nF, nC := 40, 30
	if tier == "thorough" {
		nF, nC = 400, 300
	}
	for i := 0; i < nF; i++ {
		n := r.Pick([]int{0, 1, 12, 31, 32, 33, 48, 64, 65, 128, 200})
		if r.Intn(4) == 0 {
			n = r.Intn(300)
		}
		id++
		line := fmt.Sprintf("F %d %s %s %s %d", id, hexOrDot(r.Bytes(r.Pick([]int{0, 1, 48, 64, 65, 100}))),
			hexOrDot(r.Bytes(r.Pick([]int{0, 13, 15}))), hexOrDot(r.Bytes(r.Pick([]int{0, 32, 64}))), n)
		o.Case(line)
		o.Obs(runCase(line))
	}
	// label+seed lengths x output lengths (pHash builds A(i) || seed: boundaries of any fixed-size scratch buffer)
	for _, ls := range []int{0, 1, 31, 32, 33, 63, 64, 65, 95, 96, 97, 127, 128, 129, 200, 300, 1000} {
		for _, n := range []int{1, 31, 32, 33, 64, 65, 100, 300} {
			ll := r.Pick([]int{0, 13, 15, 22})
			if ll > ls {
				ll = ls
			}
			id++
			line := fmt.Sprintf("F %d %s %s %s %d", id, hexOrDot(r.Bytes(r.Pick([]int{0, 1, 48, 64, 65}))),
				hexOrDot(r.Bytes(ll)), hexOrDot(r.Bytes(ls-ll)), n)
			o.Case(line)
			o.Obs(runCase(line))
		}
	}
	for i := 0; i < nC; i++ {
		k := 1 + r.Intn(5)
		recs := make([]string, k)
		for j := range recs {
			extra := "~"
			if r.Intn(2) == 0 {
				extra = hexOrDot(r.Bytes(r.Intn(80)))
			}
			seq := []byte{0, 0, 0, 0, 0, 0, 0, byte(j)}
			dl := r.Pick([]int{0, 1, 42, 43, 44, 106, 107, 108, 1000})
			hdr := []byte{23, 1, 1, byte(dl >> 8), byte(dl)}
			recs[j] = fmt.Sprintf("%s:%s:%s:%s", hexOrDot(seq), hexOrDot(hdr), hexOrDot(r.Bytes(dl)), extra)
		}
		id++
		line := fmt.Sprintf("C %d %s %s", id, hexOrDot(r.Bytes(r.Pick([]int{0, 32, 64, 65}))), strings.Join(recs, ","))
		o.Case(line)
		o.Obs(runCase(line))
	}
	for rep := 0; rep < reps; rep++ {
		for _, base := range bases {
			for _, wl := range wlens {
				// a state consistent with "length/8 bytes written": tail length = bytes mod 64
				tl := r.Pick([]int{0, 0, 1, 3, 55, 56, 63, r.Intn(64)})
				length := (base/512)*512 + uint64(tl)*8
				if base%512 != 0 && rep == 0 {
					// keep the named value itself: its tail length follows from it
					length = base
					tl = int(base / 8 % 64)
				}
				dg := iv
				if r.Intn(2) == 0 {
					for i := range dg {
						dg[i] = uint32(r.U64())
					}
				}
				ws := make([]string, 8)
				for i, w := range dg {
					ws[i] = fmt.Sprintf("%08x", w)
				}
				if r.Intn(6) == 0 {
					wl = r.Intn(300)
				}
				id++
				line := fmt.Sprintf("X %d %s %x %s %s", id, strings.Join(ws, ","), length, hexOrDot(r.Bytes(tl)), hexOrDot(r.Bytes(wl)))
				o.Case(line)
				o.Obs(runCase(line))
			}
		}
	}
}

func main() {
	if len(os.Args) >= 6 && os.Args[1] == "gen" {
		seed, _ := strconv.ParseUint(os.Args[2], 10, 64)
		o := hx.NewOut(os.Args[4], os.Args[5])
		gen(seed, os.Args[3], o)
		o.Retry(runCase) // a case that ran out of time in this pass is re-run alone with 10x deadlines
		o.Close()
		return
	}
	if len(os.Args) >= 4 && os.Args[1] == "run" {
		o := hx.NewOut(os.DevNull, os.Args[3])
		for _, l := range hx.ReadLines(os.Args[2]) {
			o.Obs(runCase(l))
		}
		o.Retry(runCase) // a case that ran out of time in this pass is re-run alone with 10x deadlines
		o.Close()
		return
	}
	fmt.Fprintln(os.Stderr, "usage: c04w gen <seed> <tier> <cases> <obs> | c04w run <cases> <obs>")
	os.Exit(2)
}
