// Correspondence driver for C07, WHITE-BOX leg (gmtls record protection layer).
// Needs the hook file /repo/gmtls/verif_record_verif.go (build tag "verif").
//
//   c07w gen  <seed> <tier> <cases-out> <obs-out>   generate cases, run /repo on them
//   c07w run  <cases-in> <obs-out>                  run /repo on given cases (replay)
//
// Case lines (single spaces; bytes = lower-case hex, "-" = empty; see internal/hx):
//   P id payload                       VerifExtractPadding            -> ok <toRemove> <good>
//   U id a b                           VerifRoundUp (a>=0, b>=1)      -> ok <n>
//   B id payload bs                    VerifPadToBlockSize (bs>=1)    -> ok <prefix> <final>
//   Q id seq                           halfConn{seq}.incSeq           -> ok <newseq> | PANIC
//   E id suite key mackey iv seq typ ver eiv data
//        suite = cbc (0xe013) | gcm (0xe053); key 16 bytes; mackey 32 bytes (cbc) or "-" (gcm);
//        iv = 16-byte CBC IV (cbc) / 4-byte fixed nonce (gcm); seq 8 bytes; typ decimal; ver 4 hex digits;
//        eiv = explicit IV (16 bytes, cbc) / explicit nonce (8 bytes, gcm); data = plaintext fragment.
//        record = [typ, ver>>8, ver, len(data)>>8, len(data)] ‖ eiv ‖ data is handed to halfConn.encrypt
//        (explicitIVLen = len(eiv)) of a WRITE halfConn.                -> ok <record> <newseq> | PANIC
//   D id suite key mackey iv seq record label want
//        READ halfConn with that key material and seq; halfConn.decrypt(record).
//        label in {genuine, lenfield, mutant} and want (expected plaintext, "-" for mutant) are
//        information for the predicate only; the driver ignores them.
//                                         -> ok <plaintext> <newseq> | err <seq-after> | PANIC
// Observation lines:  id ok <fields> | id err <fields> | id PANIC | id HANG
package main

import (
	"bytes"
	"crypto/cipher"
	"crypto/hmac"
	"encoding/binary"
	"fmt"
	"os"
	"strconv"
	"strings"
	"time"

	"github.com/tjfoc/gmsm/gmtls"
	"github.com/tjfoc/gmsm/sm3"
	"github.com/tjfoc/gmsm/sm4"
	"verifharness/internal/hx"
)

const deadline = 20 * time.Second

func suiteID(s string) uint16 {
	switch s {
	case "cbc":
		return 0xe013
	case "gcm":
		return 0xe053
	}
	panic("bad suite " + s)
}

func atoi(s string) int {
	n, err := strconv.Atoi(s)
	if err != nil {
		panic("bad int in case file: " + s)
	}
	return n
}

func runCase(line string) string {
	f := strings.Split(line, " ")
	if len(f) < 2 {
		return "0 BADCASE"
	}
	id := f[1]
	res, _ := hx.Guard(deadline, func() string {
		switch f[0] {
		case "P":
			n, good := gmtls.VerifExtractPadding(hx.UnHex(f[2]))
			return fmt.Sprintf("ok %d %d", n, good)
		case "U":
			return fmt.Sprintf("ok %d", gmtls.VerifRoundUp(atoi(f[2]), atoi(f[3])))
		case "B":
			p, fb := gmtls.VerifPadToBlockSize(hx.UnHex(f[2]), atoi(f[3]))
			return "ok " + hx.Hex(p) + " " + hx.Hex(fb)
		case "Q":
			hc := gmtls.VerifNewHalfConn(0xe053, make([]byte, 16), nil, make([]byte, 4), false, hx.UnHex(f[2]))
			hc.IncSeq()
			return "ok " + hx.Hex(hc.Seq())
		case "E":
			hc := gmtls.VerifNewHalfConn(suiteID(f[2]), hx.UnHex(f[3]), hx.UnHex(f[4]), hx.UnHex(f[5]), false, hx.UnHex(f[6]))
			typ := atoi(f[7])
			ver := hx.UnHex(f[8])
			eiv, data := hx.UnHex(f[9]), hx.UnHex(f[10])
			m := len(data)
			rec := []byte{byte(typ), ver[0], ver[1], byte(m >> 8), byte(m)}
			rec = append(rec, eiv...)
			rec = append(rec, data...)
			out := hc.Encrypt(rec, len(eiv))
			return "ok " + hx.Hex(out) + " " + hx.Hex(hc.Seq())
		case "D":
			hc := gmtls.VerifNewHalfConn(suiteID(f[2]), hx.UnHex(f[3]), hx.UnHex(f[4]), hx.UnHex(f[5]), true, hx.UnHex(f[6]))
			ok, pt, _, _ := hc.Decrypt(hx.UnHex(f[7]))
			if !ok {
				return "err " + hx.Hex(hc.Seq())
			}
			return "ok " + hx.Hex(pt) + " " + hx.Hex(hc.Seq())
		case "M":
			// M id suite ver key mackey iv seq items   items = typ:eiv:data,...  (stateful pair, any version)
			ver := hx.UnHex(f[3])
			v16 := uint16(ver[0])<<8 | uint16(ver[1])
			w := gmtls.VerifNewHalfConnV(v16, suiteID(f[2]), hx.UnHex(f[4]), hx.UnHex(f[5]), hx.UnHex(f[6]), false, hx.UnHex(f[7]))
			r := gmtls.VerifNewHalfConnV(v16, suiteID(f[2]), hx.UnHex(f[4]), hx.UnHex(f[5]), hx.UnHex(f[6]), true, hx.UnHex(f[7]))
			var recs, pts [][]byte
			for j, it := range strings.Split(f[8], ",") {
				p := strings.Split(it, ":")
				typ := atoi(p[0])
				eiv, data := hx.UnHex(p[1]), hx.UnHex(p[2])
				m := len(data)
				rec := []byte{byte(typ), ver[0], ver[1], byte(m >> 8), byte(m)}
				rec = append(rec, eiv...)
				rec = append(rec, data...)
				out := w.Encrypt(rec, len(eiv))
				recs = append(recs, out)
				ok, pt, _, _ := r.Decrypt(out)
				if !ok {
					return fmt.Sprintf("err %d", j)
				}
				pts = append(pts, pt)
			}
			return "ok " + hx.HexList(recs) + " " + hx.HexList(pts) + " " + hx.Hex(w.Seq()) + " " + hx.Hex(r.Seq())
		case "H":
			// H id isClient vers haveVers seq nextSuite key mackey iv hand wire wants
			vers := hx.UnHex(f[3])
			var next uint16
			if f[6] != "-" {
				next = suiteID(f[6])
			}
			var wants []uint8
			for _, w := range hx.UnInts(f[12]) {
				wants = append(wants, uint8(w))
			}
			failed, hand, seq, switched, written := gmtls.VerifReadRecords(f[2] == "1", uint16(vers[0])<<8|uint16(vers[1]), f[4] == "1",
				hx.UnHex(f[5]), next, hx.UnHex(f[7]), hx.UnHex(f[8]), hx.UnHex(f[9]), hx.UnHex(f[10]), hx.UnHex(f[11]), wants)
			// the alerts written (unprotected records of type 21): their descriptions, in order
			var descs []byte
			for b := written; len(b) >= 7; {
				n := 5 + (int(b[3])<<8 | int(b[4]))
				if n > len(b) {
					break
				}
				if b[0] == 21 && n == 7 {
					descs = append(descs, b[6])
				}
				b = b[n:]
			}
			sw := 0
			if switched {
				sw = 1
			}
			return fmt.Sprintf("ok %d %s %s %d %s", failed, hx.Hex(hand), hx.Hex(seq), sw, hx.Hex(descs))
		}
		return "BADCASE"
	})
	return id + " " + res
}

// ---------------------------------------------------------------------------------------------
// Hand-built record protection (independent of gmtls): RFC 5246 6.2.3.2 / 6.2.3.3 with SM4, HMAC-SM3.

func hdr(typ byte, ver uint16, n int) []byte {
	return []byte{typ, byte(ver >> 8), byte(ver), byte(n >> 8), byte(n)}
}

// data ‖ HMAC-SM3(mackey, seq ‖ hdr(len(data)) ‖ data) ‖ (L+1 bytes equal to L)
func cbcBody(mackey, seq []byte, typ byte, ver uint16, data []byte, L int) []byte {
	h := hmac.New(sm3.New, mackey)
	h.Write(seq)
	h.Write(hdr(typ, ver, len(data)))
	h.Write(data)
	body := append(append([]byte{}, data...), h.Sum(nil)...)
	return append(body, bytes.Repeat([]byte{byte(L)}, L+1)...)
}

func sealCBC(key []byte, typ byte, ver uint16, iv, body []byte) []byte {
	blk, err := sm4.NewCipher(key)
	if err != nil {
		panic(err)
	}
	ct := make([]byte, len(body))
	cipher.NewCBCEncrypter(blk, iv).CryptBlocks(ct, body)
	rec := hdr(typ, ver, len(iv)+len(ct))
	rec = append(rec, iv...)
	return append(rec, ct...)
}

func minPad(p int) int { return 16 - (p+32)%16 - 1 }

func handGCM(key, fixed, seq []byte, typ byte, ver uint16, explicit, data []byte) []byte {
	blk, err := sm4.NewCipher(key)
	if err != nil {
		panic(err)
	}
	g, err := cipher.NewGCM(blk)
	if err != nil {
		panic(err)
	}
	nonce := append(append([]byte{}, fixed...), explicit...)
	ad := append(append([]byte{}, seq...), hdr(typ, ver, len(data))...)
	ct := g.Seal(nil, nonce, data, ad)
	rec := hdr(typ, ver, len(explicit)+len(ct))
	rec = append(rec, explicit...)
	return append(rec, ct...)
}

// ---------------------------------------------------------------------------------------------
func b2i(b bool) int {
	if b {
		return 1
	}
	return 0
}

type keyset struct{ key, mac, iv []byte }

func newKS(r *hx.Rng, suite string) keyset {
	if suite == "cbc" {
		return keyset{r.Bytes(16), r.Bytes(32), r.Bytes(16)}
	}
	return keyset{r.Bytes(16), nil, r.Bytes(4)}
}

func u64(x uint64) []byte {
	b := make([]byte, 8)
	binary.BigEndian.PutUint64(b, x)
	return b
}

const allOnes = ^uint64(0)

type gen struct {
	r        *hx.Rng
	o        *hx.Out
	id       int
	count    map[string]int
	group    string
	mismatch int
	noModel  bool // tag the next D line nm: the runner skips it
}

func (g *gen) emit(line string) string {
	g.o.Case(line)
	obs := runCase(line)
	g.o.Obs(obs)
	g.count[g.group+":"+line[:1]]++
	return obs
}
func (g *gen) next() int { g.id++; return g.id }

// mkRecord emits the E case (real encoder) and returns the protected record.  The hand-built
// record is used when the real encoder panicked (sequence number wrap) and is compared otherwise.
func (g *gen) mkRecord(suite string, k keyset, seq []byte, typ byte, ver uint16, eiv, data []byte) []byte {
	obs := g.emit(fmt.Sprintf("E %d %s %s %s %s %s %d %04x %s %s", g.next(), suite, hx.Hex(k.key), hx.Hex(k.mac), hx.Hex(k.iv),
		hx.Hex(seq), typ, ver, hx.Hex(eiv), hx.Hex(data)))
	var hand []byte
	if suite == "cbc" {
		hand = sealCBC(k.key, typ, ver, eiv, cbcBody(k.mac, seq, typ, ver, data, minPad(len(data))))
	} else {
		hand = handGCM(k.key, k.iv, seq, typ, ver, eiv, data)
	}
	f := strings.Split(obs, " ")
	if len(f) == 4 && f[1] == "ok" {
		rec := hx.UnHex(f[2])
		if !bytes.Equal(rec, hand) {
			g.mismatch++
			fmt.Fprintf(os.Stderr, "c07w: real encoder differs from hand-built record, case id %s\n", f[0])
		}
		return rec
	}
	return hand
}

func (g *gen) emitD(suite string, k keyset, seq, rec []byte, label string, want []byte) string {
	w := "-"
	if label != "mutant" {
		w = hx.Hex(want)
	}
	tag := ""
	if g.noModel {
		tag = " nm"
	}
	return g.emit(fmt.Sprintf("D %d %s %s %s %s %s %s %s %s%s", g.next(), suite, hx.Hex(k.key), hx.Hex(k.mac), hx.Hex(k.iv),
		hx.Hex(seq), hx.Hex(rec), label, w, tag))
}

// flip one bit; header bytes 3 and 4 (the length field) are never read by halfConn.decrypt
func (g *gen) emitFlip(suite string, k keyset, seq, rec []byte, pos int, bit uint, data []byte) {
	m := append([]byte{}, rec...)
	m[pos] ^= 1 << bit
	if pos == 3 || pos == 4 {
		g.emitD(suite, k, seq, m, "lenfield", data)
	} else {
		g.emitD(suite, k, seq, m, "mutant", nil)
	}
}

func eivFor(r *hx.Rng, suite string, seq []byte) []byte {
	if suite == "cbc" {
		return r.Bytes(16)
	}
	return append([]byte{}, seq...)
}

var niceSeqs = []uint64{0, 1, 255, 256, 0xffffffff, 0x100000000, 0xfffffffffffffffe, 0x0123456789abcdef, 0xff, 0xffff, 0x8000000000000000, 2}

func generate(seed uint64, tier string, o *hx.Out) *gen {
	r := hx.NewRng(seed)
	g := &gen{r: r, o: o, count: map[string]int{}}
	mult := 1
	if tier == "thorough" {
		mult = 5
	}
	const ver = 0x0101
	suites := []string{"cbc", "gcm"}

	// (a) small records, exhaustive single-bit flips, all truncations, extensions 1..48
	g.group = "a"
	for _, suite := range suites {
		lens := []int{0, 1, 2, 3, 5, 10, 15, 16, 17, 20, 31, 32, 33, 43}
		if suite == "gcm" {
			lens = append(lens, 48, 64, 80, 99)
		}
		for li, p := range lens {
			combos := 2 * mult
			if tier != "thorough" {
				combos = 1 // quick: one base record per (suite, length), alternating the two styles
			}
			for c0 := 0; c0 < combos; c0++ {
				c := c0
				if combos == 1 {
					c = li % 2
				}
				k := newKS(r, suite)
				var seq []byte
				typ := byte(23)
				switch {
				case c == 0:
					seq = r.Bytes(8)
				case c%2 == 1:
					seq = u64(niceSeqs[(li+c/2)%len(niceSeqs)])
					typ = []byte{21, 22, 23}[(li+c/2)%3]
				default:
					seq = u64(r.U64() >> uint(8*r.Intn(8)))
				}
				if binary.BigEndian.Uint64(seq) == allOnes {
					seq[7] = 0xfe
				}
				data := r.Bytes(p)
				rec := g.mkRecord(suite, k, seq, typ, ver, eivFor(r, suite, seq), data)
				g.emitD(suite, k, seq, rec, "genuine", data)
				for i := range rec {
					for b := uint(0); b < 8; b++ {
						g.emitFlip(suite, k, seq, rec, i, b, data)
					}
				}
				for t := 1; t <= len(rec)-5; t++ {
					g.emitD(suite, k, seq, rec[:len(rec)-t], "mutant", nil)
				}
				for e := 1; e <= 48; e++ {
					g.emitD(suite, k, seq, append(append([]byte{}, rec...), r.Bytes(e)...), "mutant", nil)
				}
			}
		}
	}

	// (b) CBC, chosen padding length 0..255, built by hand
	g.group = "b"
	for rep := 0; rep < mult; rep++ {
		for L := 0; L <= 255; L++ {
			k := newKS(r, "cbc")
			seq := r.Bytes(8)
			if binary.BigEndian.Uint64(seq) == allOnes {
				seq[0] = 0
			}
			typ := byte(23)
			p := (16-(33+L)%16)%16 + 16*r.Intn(3)
			data := r.Bytes(p)
			iv := r.Bytes(16)
			body := cbcBody(k.mac, seq, typ, ver, data, L)
			n := len(body)
			g.emitD("cbc", k, seq, sealCBC(k.key, typ, ver, iv, body), "genuine", data)
			// every padding byte position corrupted
			// quick tier: the implementation is run (and the predicate evaluated) on every position; the
			// model is compared on the length byte, the first and last padding byte, the middle and three
			// random positions per padding length, the other lines carry the tag nm (no model)
			keep := map[int]bool{0: true, 1: true, L / 2: true, L - 1: true, L: true, r.Intn(L + 1): true, r.Intn(L + 1): true, r.Intn(L + 1): true}
			for j := 0; j <= L; j++ {
				m := append([]byte{}, body...)
				m[n-1-j] ^= byte(1 + r.Intn(255))
				g.noModel = tier != "thorough" && !keep[j]
				g.emitD("cbc", k, seq, sealCBC(k.key, typ, ver, iv, m), "mutant", nil)
				g.noModel = false
			}
			// one flipped bit in the plaintext MAC, padding intact
			for c := 0; c < 2; c++ {
				m := append([]byte{}, body...)
				m[p+r.Intn(32)] ^= 1 << uint(r.Intn(8))
				g.emitD("cbc", k, seq, sealCBC(k.key, typ, ver, iv, m), "mutant", nil)
			}
			// pad length byte replaced: 0 (valid 1-byte padding, MAC then misplaced), a smaller l',
			// L+1, 255 (longer than what is there / than the payload)
			var alt []int
			if L >= 1 {
				alt = append(alt, 0)
			}
			if L >= 2 {
				alt = append(alt, 1+r.Intn(L-1))
			}
			if L < 255 {
				alt = append(alt, L+1)
			}
			if L < 254 {
				alt = append(alt, 255)
			}
			for _, l2 := range alt {
				m := append([]byte{}, body...)
				m[n-1] = byte(l2)
				g.emitD("cbc", k, seq, sealCBC(k.key, typ, ver, iv, m), "mutant", nil)
			}
		}
	}

	// (c) payload sizes up to maxPlaintext
	g.group = "c"
	for _, suite := range suites {
		sizes := []int{0, 1, 15, 16, 17, 255, 256, 1000, 1151, 1152, 4095, 4096, 8191, 16383, 16384}
		for i := 0; i < 2*mult; i++ {
			sizes = append(sizes, r.Intn(4001))
		}
		for i := 0; i < mult; i++ {
			sizes = append(sizes, 4097+r.Intn(16384-4097+1))
		}
		for _, p := range sizes {
			k := newKS(r, suite)
			seq := u64(r.U64() >> uint(8*r.Intn(8)))
			if binary.BigEndian.Uint64(seq) == allOnes {
				seq[7] = 0
			}
			data := r.Bytes(p)
			rec := g.mkRecord(suite, k, seq, 23, ver, eivFor(r, suite, seq), data)
			n := len(rec)
			g.emitD(suite, k, seq, rec, "genuine", data)
			g.emitFlip(suite, k, seq, rec, 0, uint(r.Intn(8)), data)
			g.emitFlip(suite, k, seq, rec, n-1, uint(r.Intn(8)), data)
			g.emitFlip(suite, k, seq, rec, r.Intn(n), uint(r.Intn(8)), data)
			g.emitFlip(suite, k, seq, rec, 5+r.Intn(n-5), uint(r.Intn(8)), data)
			g.emitD(suite, k, seq, rec[:n-1], "mutant", nil)
			g.emitD(suite, k, seq, rec[:n-16], "mutant", nil)
			g.emitD(suite, k, seq, append(append([]byte{}, rec...), r.Bytes(1)...), "mutant", nil)
			g.emitD(suite, k, seq, append(append([]byte{}, rec...), r.Bytes(16)...), "mutant", nil)
		}
	}

	// (d) sequence numbers, wrong key material, reflected records
	g.group = "d"
	for _, suite := range suites {
		seqs := []uint64{0, 1, 255, 256, 0xffffffff, 0x100000000, 0xfffffffffffffffe, allOnes}
		for i := 0; i < 8*(mult-1); i++ {
			seqs = append(seqs, r.U64()>>uint(8*r.Intn(8)))
		}
		for _, s := range seqs {
			k := newKS(r, suite)
			k2 := newKS(r, suite) // the other direction's keys
			seq := u64(s)
			data := r.Bytes(20)
			eiv := eivFor(r, suite, seq)
			rec := g.mkRecord(suite, k, seq, 23, ver, eiv, data)
			g.emitD(suite, k, seq, rec, "genuine", data)
			g.emitD(suite, k, u64(s+1), rec, "mutant", nil)
			g.emitD(suite, k, u64(s-1), rec, "mutant", nil)
			rs := r.U64()
			if rs == s {
				rs++
			}
			g.emitD(suite, k, u64(rs), rec, "mutant", nil)
			kk := k
			kk.key = append([]byte{}, k.key...)
			kk.key[r.Intn(16)] ^= 1 << uint(r.Intn(8))
			g.emitD(suite, kk, seq, rec, "mutant", nil)
			g.emitD(suite, keyset{k2.key, k.mac, k.iv}, seq, rec, "mutant", nil)
			if suite == "cbc" {
				kk = k
				kk.mac = append([]byte{}, k.mac...)
				kk.mac[r.Intn(32)] ^= 1 << uint(r.Intn(8))
				g.emitD(suite, kk, seq, rec, "mutant", nil)
				g.emitD(suite, keyset{k.key, k2.mac, k.iv}, seq, rec, "mutant", nil)
			} else {
				kk = k
				kk.iv = append([]byte{}, k.iv...)
				kk.iv[r.Intn(4)] ^= 1 << uint(r.Intn(8))
				g.emitD(suite, kk, seq, rec, "mutant", nil)
			}
			// record of the opposite direction (other key set, same seq, same plaintext) offered to this one
			rec2 := g.mkRecord(suite, k2, seq, 23, ver, eiv, data)
			g.emitD(suite, k, seq, rec2, "mutant", nil)
			g.emitD(suite, k2, seq, rec, "mutant", nil)
		}
	}

	// (f) stateful pairs: several records through one write / one read half connection, GMSSL and TLS 1.0
	// (TLS 1.0 CBC: no explicit IV, the IV is the last ciphertext block of the previous record)
	g.group = "f"
	for rep := 0; rep < 12*mult; rep++ {
		for _, suite := range suites {
			for _, ver := range []uint16{0x0101, 0x0301} {
				k := newKS(r, suite)
				seq := u64(niceSeqs[r.Intn(4)])
				nrec := 2 + r.Intn(4)
				var items []string
				s := binary.BigEndian.Uint64(seq)
				for j := 0; j < nrec; j++ {
					var eiv []byte
					switch {
					case suite == "gcm":
						eiv = u64(s + uint64(j))
					case ver == 0x0101:
						eiv = r.Bytes(16)
					}
					data := r.Bytes(r.Pick([]int{0, 1, 15, 16, 17, 40, 100, 300}))
					items = append(items, fmt.Sprintf("%d:%s:%s", []int{23, 23, 22, 21}[r.Intn(4)], hx.Hex(eiv), hx.Hex(data)))
				}
				g.emit(fmt.Sprintf("M %d %s %04x %s %s %s %s %s", g.next(), suite, ver, hx.Hex(k.key), hx.Hex(k.mac), hx.Hex(k.iv),
					hx.Hex(seq), strings.Join(items, ",")))
			}
		}
	}

	// (g) readRecord during the handshake: ChangeCipherSpec, pending handshake bytes, record types, versions
	g.group = "g"
	plain := func(typ byte, ver uint16, data []byte) []byte { return append(hdr(typ, ver, len(data)), data...) }
	ccs := plain(20, 0x0101, []byte{1})
	finished := func() []byte { return append([]byte{20, 0, 0, 12}, r.Bytes(12)...) }
	for rep := 0; rep < 6*mult; rep++ {
		for _, suite := range suites {
			k := newKS(r, suite)
			enc := func(seq uint64, typ byte, data []byte) []byte {
				w := gmtls.VerifNewHalfConn(suiteID(suite), k.key, k.mac, k.iv, false, u64(seq))
				rec := hdr(typ, 0x0101, len(data))
				eiv := eivFor(r, suite, u64(seq))
				rec = append(append(rec, eiv...), data...)
				return w.Encrypt(rec, len(eiv))
			}
			H := func(isClient bool, vers uint16, haveVers bool, seq uint64, next bool, hand, wire []byte, wants []int) {
				ns, kk, km, ki := "-", "-", "-", "-"
				if next {
					ns, kk, km, ki = suite, hx.Hex(k.key), hx.Hex(k.mac), hx.Hex(k.iv)
				}
				g.emit(fmt.Sprintf("H %d %d %04x %d %s %s %s %s %s %s %s %s", g.next(), b2i(isClient), vers, b2i(haveVers), hx.Hex(u64(seq)),
					ns, kk, km, ki, hx.Hex(hand), hx.Hex(wire), hx.Ints(wants)))
			}
			cat := func(parts ...[]byte) []byte { return bytes.Join(parts, nil) }
			fin := finished()
			hs1 := r.Bytes(1 + r.Intn(60))
			cl := r.Bool()
			seq0 := uint64(r.Pick([]int{0, 1, 5, 70000}))
			// regular: CCS accepted, sequence number reset, next record read under the new keys
			H(cl, 0x0101, true, seq0, true, nil, cat(ccs, enc(0, 22, fin)), []int{20, 22})
			H(cl, 0x0101, true, seq0, true, nil, cat(ccs, enc(0, 22, fin), enc(1, 22, hs1)), []int{20, 22, 22})
			// handshake bytes still waiting when the CCS arrives: a whole message, a partial one, one byte
			H(cl, 0x0101, true, seq0, true, fin, cat(ccs, enc(0, 22, fin)), []int{20, 22})
			H(cl, 0x0101, true, seq0, true, fin[:3+r.Intn(10)], cat(ccs, enc(0, 22, fin)), []int{20, 22})
			H(cl, 0x0101, true, seq0, true, cat(fin, finished()), cat(ccs, enc(0, 22, fin)), []int{20, 22})
			H(cl, 0x0101, true, seq0, true, nil, cat(plain(22, 0x0101, fin), ccs, enc(0, 22, fin)), []int{22, 20, 22})
			// nothing prepared
			H(cl, 0x0101, true, seq0, false, nil, cat(ccs, plain(22, 0x0101, fin)), []int{20, 22})
			// malformed CCS
			H(cl, 0x0101, true, seq0, true, nil, cat(plain(20, 0x0101, []byte{1, 1}), enc(0, 22, fin)), []int{20, 22})
			H(cl, 0x0101, true, seq0, true, nil, cat(plain(20, 0x0101, []byte{2}), enc(0, 22, fin)), []int{20, 22})
			H(cl, 0x0101, true, seq0, true, nil, cat(plain(20, 0x0101, nil), enc(0, 22, fin)), []int{20, 22})
			// type / want mismatches
			H(cl, 0x0101, true, seq0, true, nil, cat(ccs, enc(0, 22, fin)), []int{22, 22})
			H(cl, 0x0101, true, seq0, true, nil, cat(plain(22, 0x0101, hs1), ccs), []int{20, 20})
			H(cl, 0x0101, true, seq0, true, nil, cat(plain(23, 0x0101, hs1), ccs), []int{r.Pick([]int{20, 22}), 20})
			H(cl, 0x0101, true, seq0, true, nil, cat(plain(byte(r.Pick([]int{0, 19, 24, 99, 255})), 0x0101, hs1), ccs), []int{22, 20})
			H(cl, 0x0101, true, seq0, true, nil, cat(plain(22, 0x0101, hs1), ccs), []int{r.Pick([]int{23, 21, 0, 99}), 20})
			// handshake records accumulate in c.hand
			H(cl, 0x0101, true, seq0, true, hs1[:1], cat(plain(22, 0x0101, hs1), plain(22, 0x0101, nil), plain(22, 0x0101, fin)), []int{22, 22, 22})
			// versions; first record checks
			H(cl, 0x0101, true, seq0, true, nil, cat(plain(22, uint16(r.Pick([]int{0x0301, 0x0303, 0x0100, 0x0102, 0})), hs1), ccs), []int{22, 20})
			H(cl, 0x0101, false, seq0, true, nil, cat(plain(22, uint16(r.Pick([]int{0x0301, 0x0303, 0x0fff, 0x1000, 0x8000})), hs1), ccs), []int{22, 20})
			H(cl, 0x0101, false, seq0, true, nil, cat(plain(byte(r.Pick([]int{20, 21, 23, 99})), 0x0101, []byte{1, 10}), ccs), []int{22, 20})
			H(cl, 0x0101, r.Bool(), seq0, true, nil, cat([]byte{0x80, byte(r.Intn(256)), 1, 0, 2}, hs1), []int{r.Pick([]int{22, 20})})
			// alerts: warnings are skipped (at most 5 in a row), close_notify, fatal, malformed
			nw := r.Pick([]int{1, 2, 5, 6, 7})
			var warns []byte
			for j := 0; j < nw; j++ {
				warns = append(warns, plain(21, 0x0101, []byte{1, byte(1 + r.Intn(120))})...)
			}
			H(cl, 0x0101, true, seq0, true, nil, cat(warns, ccs, enc(0, 22, fin)), []int{20, 22})
			H(cl, 0x0101, true, seq0, true, nil, cat(warns[:7], plain(22, 0x0101, hs1), warns, plain(22, 0x0101, hs1)), []int{22, 22})
			H(cl, 0x0101, true, seq0, true, nil, cat(plain(21, 0x0101, []byte{byte(r.Pick([]int{1, 2})), 0}), ccs), []int{20})
			H(cl, 0x0101, true, seq0, true, nil, cat(plain(21, 0x0101, []byte{2, byte(1 + r.Intn(120))}), ccs), []int{20})
			H(cl, 0x0101, true, seq0, true, nil, cat(plain(21, 0x0101, []byte{byte(r.Pick([]int{0, 3, 255})), 40}), ccs), []int{22})
			H(cl, 0x0101, true, seq0, true, nil, cat(plain(21, 0x0101, r.Bytes(r.Pick([]int{0, 1, 3}))), ccs), []int{22})
			// after the CCS: wrong sequence number, corrupted record, unprotected record
			H(cl, 0x0101, true, seq0, true, nil, cat(ccs, enc(1, 22, fin)), []int{20, 22})
			bad := enc(0, 22, fin)
			bad[len(bad)-1-r.Intn(len(bad)-5)] ^= byte(1 + r.Intn(255))
			H(cl, 0x0101, true, seq0, true, nil, cat(ccs, bad), []int{20, 22})
			H(cl, 0x0101, true, seq0, true, nil, cat(ccs, plain(22, 0x0101, fin)), []int{20, 22})
			// length field: oversized, truncated stream
			H(cl, 0x0101, true, seq0, true, nil, cat([]byte{22, 1, 1, 0x48, byte(1 + r.Intn(255))}, hs1), []int{22})
			trunc := cat(plain(22, 0x0101, hs1), ccs)
			H(cl, 0x0101, true, seq0, true, nil, trunc[:r.Intn(len(trunc))], []int{22, 20})
		}
	}

	// (e) helpers
	g.group = "e"
	emitP := func(b []byte) { g.emit(fmt.Sprintf("P %d %s", g.next(), hx.Hex(b))) }
	sample := []int{0, 1, 2, 3, 4, 5, 7, 8, 14, 15, 16, 17, 30, 31, 32, 33, 63, 64, 100, 127, 128, 200, 254, 255}
	if tier == "thorough" {
		in := map[int]bool{}
		for _, l := range sample {
			in[l] = true
		}
		for l := 0; l < 256; l += 3 {
			if !in[l] {
				sample = append(sample, l)
			}
		}
	}
	emitP(nil)
	for _, l := range sample {
		for variant := 0; variant < 2; variant++ {
			n := l + 1
			if variant == 1 && n < 300 {
				n += 1 + r.Intn(300-n)
			}
			pay := r.Bytes(n)
			for j := 0; j <= l; j++ {
				pay[n-1-j] = byte(l)
			}
			emitP(pay)
			for j := 0; j <= l; j++ {
				m := append([]byte{}, pay...)
				m[n-1-j] ^= byte(1 + r.Intn(255))
				emitP(m)
			}
		}
	}
	for n := 1; n <= 255; n++ {
		emitP(bytes.Repeat([]byte{byte(n)}, n))     // l = len: one byte short
		emitP(bytes.Repeat([]byte{byte(n - 1)}, n)) // l = len-1: the whole payload is padding
	}
	for _, n := range []int{1, 2, 16, 100, 255, 256, 257, 300} {
		pay := bytes.Repeat([]byte{255}, n) // l = 255 against every length class
		emitP(pay)
	}
	for i := 0; i < 400*mult; i++ {
		pay := r.Bytes(r.Intn(301))
		if len(pay) > 0 && i%2 == 0 {
			pay[len(pay)-1] = byte(r.Intn(8))
		}
		emitP(pay)
	}

	qs := []uint64{0, 1, 0xff, 0xffff, 0xffffff, 0xffffffff, 1<<40 - 1, 1<<48 - 1, 1<<56 - 1, allOnes - 1, allOnes,
		0xfe, 0x100, 0xfffe, 0xff00, 0x00ff00ff00ff00ff, 0xff00ff00ff00ff00, 0x7fffffffffffffff, 0x8000000000000000, 0xffffffffffffff00}
	for i := 0; i < 40*mult; i++ {
		x := r.U64() >> uint(8*r.Intn(8))
		if i%4 == 0 { // low bytes all ff: carries
			x |= 1<<uint(8*(1+r.Intn(7))) - 1
		}
		qs = append(qs, x)
	}
	for _, x := range qs {
		g.emit(fmt.Sprintf("Q %d %s", g.next(), hx.Hex(u64(x))))
	}

	as := []int{}
	for a := 0; a <= 70; a++ {
		as = append(as, a)
	}
	as = append(as, 255, 256, 1000, 16384, 16384+33, 65535, 65536, 1<<31-1, 1<<31, 1<<40+5, 1<<62-1)
	for _, a := range as {
		for _, b := range []int{1, 2, 8, 16, 17} {
			g.emit(fmt.Sprintf("U %d %d %d", g.next(), a, b))
		}
	}

	for n := 0; n <= 40; n++ {
		for _, bs := range []int{8, 16} {
			g.emit(fmt.Sprintf("B %d %s %d", g.next(), hx.Hex(r.Bytes(n)), bs))
		}
	}
	for _, n := range []int{100, 255, 256, 1000, 1023, 16384 + 32, 16384 + 32 + 15} {
		for _, bs := range []int{8, 16} {
			g.emit(fmt.Sprintf("B %d %s %d", g.next(), hx.Hex(r.Bytes(n)), bs))
		}
	}
	for _, bs := range []int{1, 3, 255, 256} { // block sizes the code accepts although TLS never uses them
		g.emit(fmt.Sprintf("B %d %s %d", g.next(), hx.Hex(r.Bytes(r.Intn(40))), bs))
	}
	return g
}

func main() {
	if len(os.Args) >= 6 && os.Args[1] == "gen" {
		seed, _ := strconv.ParseUint(os.Args[2], 10, 64)
		o := hx.NewOut(os.Args[4], os.Args[5])
		g := generate(seed, os.Args[3], o)
		o.Retry(runCase) // a case that ran out of time in this pass is re-run alone with 10x deadlines
		o.Close()
		if os.Getenv("C07W_STATS") != "" {
			for _, grp := range []string{"a", "b", "c", "d", "e"} {
				for _, op := range []string{"E", "D", "P", "Q", "U", "B"} {
					if n := g.count[grp+":"+op]; n > 0 {
						fmt.Fprintf(os.Stderr, "group %s %s %d\n", grp, op, n)
					}
				}
			}
			fmt.Fprintf(os.Stderr, "total %d, encoder mismatches %d\n", o.N, g.mismatch)
		}
		return
	}
	if len(os.Args) >= 4 && os.Args[1] == "run" {
		o := hx.NewOut(os.DevNull, os.Args[3])
		for _, l := range hx.ReadLines(os.Args[2]) {
			o.Obs(runCase(l))
		}
		o.Retry(runCase) // a case that ran out of time in this pass is re-run alone with 10x deadlines
		o.Close()
		return
	}
	fmt.Fprintln(os.Stderr, "usage: c07w gen <seed> <tier> <cases> <obs> | c07w run <cases> <obs>")
	os.Exit(2)
}
