// Package hx: helpers shared by the correspondence drivers (line protocol, PRNG, guards).
//
// Line protocol (one case per line, fields separated by one space):
//   bytes  -> lower-case hex, "-" for the empty string
//   lists  -> comma separated, "-" for the empty list
// The Go driver writes the case file (inputs) and the observation file (what /repo did);
// the extracted Coq model reads the case file and writes its own observation file.
package hx

import (
	"bufio"
	"encoding/hex"
	"fmt"
	"os"
	"strconv"
	"strings"
	"time"
)

func Hex(b []byte) string {
	if len(b) == 0 {
		return "-"
	}
	return hex.EncodeToString(b)
}

func UnHex(s string) []byte {
	if s == "-" || s == "" {
		return []byte{}
	}
	b, err := hex.DecodeString(s)
	if err != nil {
		panic("bad hex in case file: " + s)
	}
	return b
}

func Ints(v []int) string {
	if len(v) == 0 {
		return "-"
	}
	p := make([]string, len(v))
	for i, x := range v {
		p[i] = strconv.Itoa(x)
	}
	return strings.Join(p, ",")
}

func UnInts(s string) []int {
	if s == "-" || s == "" {
		return nil
	}
	var out []int
	for _, f := range strings.Split(s, ",") {
		x, err := strconv.Atoi(f)
		if err != nil {
			panic("bad int list: " + s)
		}
		out = append(out, x)
	}
	return out
}

func HexList(v [][]byte) string {
	if len(v) == 0 {
		return "-"
	}
	p := make([]string, len(v))
	for i, x := range v {
		if len(x) == 0 {
			p[i] = "."
		} else {
			p[i] = hex.EncodeToString(x)
		}
	}
	return strings.Join(p, ",")
}

func UnHexList(s string) [][]byte {
	if s == "-" || s == "" {
		return nil
	}
	var out [][]byte
	for _, f := range strings.Split(s, ",") {
		if f == "." {
			out = append(out, []byte{})
		} else {
			out = append(out, UnHex(f))
		}
	}
	return out
}

// Rng: splitmix64; every random choice of a driver derives from one seed.
type Rng struct{ s uint64 }

func NewRng(seed uint64) *Rng { return &Rng{s: seed*0x9E3779B97F4A7C15 + 0x1234567} }
func (r *Rng) U64() uint64 {
	r.s += 0x9E3779B97F4A7C15
	z := r.s
	z = (z ^ (z >> 30)) * 0xBF58476D1CE4E5B9
	z = (z ^ (z >> 27)) * 0x94D049BB133111EB
	return z ^ (z >> 31)
}
func (r *Rng) Intn(n int) int {
	if n <= 0 {
		return 0
	}
	return int(r.U64() % uint64(n))
}
func (r *Rng) Bytes(n int) []byte {
	b := make([]byte, n)
	for i := range b {
		b[i] = byte(r.U64())
	}
	return b
}
func (r *Rng) Pick(v []int) int { return v[r.Intn(len(v))] }
func (r *Rng) Bool() bool       { return r.U64()&1 == 1 }

// Guard runs f under recover and a deadline. Result: f's string, "PANIC", or "HANG".
func Guard(d time.Duration, f func() string) (res string, detail string) {
	type r struct{ s, d string }
	ch := make(chan r, 1)
	go func() {
		defer func() {
			if e := recover(); e != nil {
				ch <- r{"PANIC", fmt.Sprint(e)}
			}
		}()
		ch <- r{f(), ""}
	}()
	select {
	case x := <-ch:
		return x.s, x.d
	case <-time.After(d):
		return "HANG", "deadline " + d.String()
	}
}

// Out: the pair of files a driver writes.
type Out struct {
	cases, obs *bufio.Writer
	cf, of     *os.File
	N          int
}

func NewOut(casesPath, obsPath string) *Out {
	cf, err := os.Create(casesPath)
	if err != nil {
		panic(err)
	}
	of, err := os.Create(obsPath)
	if err != nil {
		panic(err)
	}
	return &Out{cases: bufio.NewWriterSize(cf, 1<<20), obs: bufio.NewWriterSize(of, 1<<20), cf: cf, of: of}
}
func (o *Out) Case(line string) { fmt.Fprintln(o.cases, line); o.N++ }
func (o *Out) Obs(line string)  { fmt.Fprintln(o.obs, line) }
func (o *Out) Close() {
	o.cases.Flush()
	o.obs.Flush()
	o.cf.Close()
	o.of.Close()
}

// ReadLines of a case file.
func ReadLines(path string) []string {
	f, err := os.Open(path)
	if err != nil {
		panic(err)
	}
	defer f.Close()
	var out []string
	sc := bufio.NewScanner(f)
	sc.Buffer(make([]byte, 1<<20), 1<<28)
	for sc.Scan() {
		if l := strings.TrimSpace(sc.Text()); l != "" {
			out = append(out, l)
		}
	}
	return out
}
