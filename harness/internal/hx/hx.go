// Package hx: helpers shared by the correspondence drivers (line protocol, PRNG, guards).
//
// Line protocol (one case per line, fields separated by one space):
//
//	bytes  -> lower-case hex, "-" for the empty string
//	lists  -> comma separated, "-" for the empty list
//
// The Go driver writes the case file (inputs) and the observation file (what /repo did);
// the extracted Coq model reads the case file and writes its own observation file.
package hx

import (
	"bufio"
	"encoding/hex"
	"fmt"
	"os"
	"strconv"
	"strings"
	"sync"
	"sync/atomic"
	"syscall"
	"time"
)

func Hex(b []byte) string {
	if len(b) == 0 {
		return "-"
	}
	return hex.EncodeToString(b)
}

func UnHex(s string) []byte {
	if s == "-" || s == "" {
		return []byte{}
	}
	b, err := hex.DecodeString(s)
	if err != nil {
		panic("bad hex in case file: " + s)
	}
	return b
}

func Ints(v []int) string {
	if len(v) == 0 {
		return "-"
	}
	p := make([]string, len(v))
	for i, x := range v {
		p[i] = strconv.Itoa(x)
	}
	return strings.Join(p, ",")
}

func UnInts(s string) []int {
	if s == "-" || s == "" {
		return nil
	}
	var out []int
	for _, f := range strings.Split(s, ",") {
		x, err := strconv.Atoi(f)
		if err != nil {
			panic("bad int list: " + s)
		}
		out = append(out, x)
	}
	return out
}

func HexList(v [][]byte) string {
	if len(v) == 0 {
		return "-"
	}
	p := make([]string, len(v))
	for i, x := range v {
		if len(x) == 0 {
			p[i] = "."
		} else {
			p[i] = hex.EncodeToString(x)
		}
	}
	return strings.Join(p, ",")
}

func UnHexList(s string) [][]byte {
	if s == "-" || s == "" {
		return nil
	}
	var out [][]byte
	for _, f := range strings.Split(s, ",") {
		if f == "." {
			out = append(out, []byte{})
		} else {
			out = append(out, UnHex(f))
		}
	}
	return out
}

// Rng: splitmix64; every random choice of a driver derives from one seed.
type Rng struct{ s uint64 }

// NewRng: the seed is hashed (splitmix64 finaliser, twice) so that the streams of neighbouring seeds are unrelated.
func NewRng(seed uint64) *Rng {
	z := seed + 0x632BE59BD9B4E019
	for i := 0; i < 2; i++ {
		z = (z ^ (z >> 30)) * 0xBF58476D1CE4E5B9
		z = (z ^ (z >> 27)) * 0x94D049BB133111EB
		z = z ^ (z >> 31)
	}
	return &Rng{s: z}
}
func (r *Rng) U64() uint64 {
	r.s += 0x9E3779B97F4A7C15
	z := r.s
	z = (z ^ (z >> 30)) * 0xBF58476D1CE4E5B9
	z = (z ^ (z >> 27)) * 0x94D049BB133111EB
	return z ^ (z >> 31)
}
func (r *Rng) Intn(n int) int {
	if n <= 0 {
		return 0
	}
	return int(r.U64() % uint64(n))
}
func (r *Rng) Bytes(n int) []byte {
	b := make([]byte, n)
	for i := range b {
		b[i] = byte(r.U64())
	}
	return b
}
func (r *Rng) Pick(v []int) int { return v[r.Intn(len(v))] }
func (r *Rng) Bool() bool       { return r.U64()&1 == 1 }

// ---------------------------------------------------------------------------------------------
// Deadlines.  A verdict must not depend on scheduling luck: every deadline of a driver goes through D (Guard
// does so itself).  In the first, parallel pass D(d) = d.  A case whose observation says that a deadline
// expired (HANG, or what the driver's own predicate recognises) is run again by Out.Retry - alone, after all
// other cases have finished - with every deadline multiplied by RetryScale (at least RetryFloor); only that
// second run decides.

const (
	RetryScale = 10
	RetryFloor = 60 * time.Second
)

var scale int64 = 1

// a driver that runs its cases in child processes hands the retry scale down through the environment
const scaleEnv = "VERIF_DEADLINE_SCALE"

// VERIF_DEADLINE_FIRST_MS (testing aid only) caps every first-pass deadline, so that the retry stage can be
// exercised on a healthy tree; retries use the real deadlines.
var firstCap time.Duration

func init() {
	if v, err := strconv.Atoi(os.Getenv(scaleEnv)); err == nil && v > 1 {
		scale = int64(v)
	}
	if v, err := strconv.Atoi(os.Getenv("VERIF_DEADLINE_FIRST_MS")); err == nil && v > 0 {
		firstCap = time.Duration(v) * time.Millisecond
	}
}

// ChildEnv is the environment entry that puts a child process into the same stage (parallel pass / retry).
func ChildEnv() string { return fmt.Sprintf("%s=%d", scaleEnv, atomic.LoadInt64(&scale)) }

// D is the effective value of a deadline: d in the parallel pass, max(RetryScale*d, RetryFloor) in a retry.
func D(d time.Duration) time.Duration {
	k := atomic.LoadInt64(&scale)
	if k <= 1 {
		if firstCap > 0 && d > firstCap {
			return firstCap // testing aid: provoke first-pass timeouts to exercise the retry stage
		}
		return d
	}
	r := d * time.Duration(k)
	if r < RetryFloor {
		r = RetryFloor
	}
	return r
}

// Solo runs f with the retry deadlines in force (for drivers that organise their own second, sequential pass).
func Solo(f func()) {
	atomic.StoreInt64(&scale, RetryScale)
	defer atomic.StoreInt64(&scale, 1)
	f()
}

// Retrying reports whether the driver is in the second (solo) stage.
func Retrying() bool { return atomic.LoadInt64(&scale) > 1 }

// CPUTime is the CPU time (user + system) the process has consumed so far.  A single case measured while
// nothing else runs in the process (retry stage) is charged its own work only, whatever the machine load.
func CPUTime() time.Duration {
	var ru syscall.Rusage
	if err := syscall.Getrusage(syscall.RUSAGE_SELF, &ru); err != nil {
		return 0
	}
	return time.Duration(ru.Utime.Nano() + ru.Stime.Nano())
}

// Guard runs f under recover and a deadline (scaled by D). Result: f's string, "PANIC", or "HANG".
func Guard(d time.Duration, f func() string) (res string, detail string) {
	d = D(d)
	type r struct{ s, d string }
	ch := make(chan r, 1)
	go func() {
		defer func() {
			if e := recover(); e != nil {
				ch <- r{"PANIC", fmt.Sprint(e)}
			}
		}()
		ch <- r{f(), ""}
	}()
	select {
	case x := <-ch:
		return x.s, x.d
	case <-time.After(d):
		return "HANG", "deadline " + d.String()
	}
}

// Out: the pair of files a driver writes.  Lines are kept in memory until Close so that Retry can replace
// the observation of a case that ran out of time in the parallel pass.
type Out struct {
	mu        sync.Mutex
	cf, of    *os.File
	caseLines []string
	obsLines  []string
	caseByID  map[string]string
	N         int
}

func NewOut(casesPath, obsPath string) *Out {
	cf, err := os.Create(casesPath)
	if err != nil {
		panic(err)
	}
	of, err := os.Create(obsPath)
	if err != nil {
		panic(err)
	}
	return &Out{cf: cf, of: of, caseByID: map[string]string{}}
}

func field(line string, i int) string {
	f := strings.SplitN(line, " ", i+2)
	if len(f) > i {
		return f[i]
	}
	return ""
}

func (o *Out) Case(line string) {
	o.mu.Lock()
	o.caseLines = append(o.caseLines, line)
	o.caseByID[field(line, 1)] = line
	o.N++
	o.mu.Unlock()
}
func (o *Out) Obs(line string) {
	o.mu.Lock()
	o.obsLines = append(o.obsLines, line)
	o.mu.Unlock()
}

// TimedOut is the default test of Retry: the observation has a field HANG.
func TimedOut(obs string) bool {
	for _, f := range strings.Fields(obs) {
		if f == "HANG" {
			return true
		}
	}
	return false
}

// Retry re-runs, alone and one after the other, the cases whose observation says that a deadline expired,
// with all deadlines scaled (see D), and replaces their observations.  run gets the case line and returns
// the observation line ("<id> ...").  To bound the cost when something really hangs, at most maxRetry cases
// are retried and retrying stops after three consecutive cases that time out again.
func (o *Out) Retry(run func(line string) string) { o.RetryIf(TimedOut, run) }

const maxRetry = 12

func (o *Out) RetryIf(timedOut func(obs string) bool, run func(line string) string) {
	o.mu.Lock()
	defer o.mu.Unlock()
	tried, again := 0, 0
	for i, ob := range o.obsLines {
		if !timedOut(ob) {
			continue
		}
		id := field(ob, 0)
		line, ok := o.caseByID[id]
		if !ok {
			readMu.Lock()
			line, ok = readByID[id]
			readMu.Unlock()
		}
		if !ok || tried >= maxRetry || again >= 3 {
			continue
		}
		tried++
		atomic.StoreInt64(&scale, RetryScale)
		t0 := time.Now()
		nob := run(line)
		atomic.StoreInt64(&scale, 1)
		fmt.Fprintf(os.Stderr, "hx: case %s ran out of time in the parallel pass (%s); re-run alone with %dx deadlines took %s: %s\n",
			id, clip(ob, 60), RetryScale, time.Since(t0).Round(time.Millisecond), clip(nob, 60))
		if timedOut(nob) {
			again++
		} else {
			again = 0
		}
		o.obsLines[i] = nob
	}
}

func clip(s string, n int) string {
	if len(s) > n {
		return s[:n] + "..."
	}
	return s
}

func (o *Out) Close() {
	cw := bufio.NewWriterSize(o.cf, 1<<20)
	for _, l := range o.caseLines {
		fmt.Fprintln(cw, l)
	}
	cw.Flush()
	ow := bufio.NewWriterSize(o.of, 1<<20)
	for _, l := range o.obsLines {
		fmt.Fprintln(ow, l)
	}
	ow.Flush()
	o.cf.Close()
	o.of.Close()
}

var (
	readMu   sync.Mutex
	readByID = map[string]string{}
)

// ReadLines of a case file.
func ReadLines(path string) []string {
	f, err := os.Open(path)
	if err != nil {
		panic(err)
	}
	defer f.Close()
	var out []string
	sc := bufio.NewScanner(f)
	sc.Buffer(make([]byte, 1<<20), 1<<28)
	for sc.Scan() {
		if l := strings.TrimSpace(sc.Text()); l != "" {
			out = append(out, l)
			readMu.Lock()
			readByID[field(l, 1)] = l
			readMu.Unlock()
		}
	}
	return out
}
